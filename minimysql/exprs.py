"""Expression compilation: AST -> python closures f(env)."""
import datetime
import decimal
import json
import math

from .errors import MySQLError
from .lexer import UnsupportedSQL
from .values import D, arith, b2i, compare, like_to_regex, to_num, truth


class Source:
    __slots__ = ('alias', 'cols', 'table', 'colobjs')

    def __init__(self, alias, cols, table=None):
        self.alias = alias.lower() if alias else None
        self.cols = [c.lower() for c in cols]
        self.table = table
        self.colobjs = table.cols if table is not None else None


class Scope:
    """compile-time name scope of one query block."""

    def __init__(self, parent=None, rvars=None, trig_table=None):
        self.parent = parent
        self.sources = []
        self.rvars = rvars if rvars is not None else (parent.rvars if parent else None)
        self.trig_table = trig_table if trig_table is not None else (parent.trig_table if parent else None)
        self.touched = set()  # source indexes referenced at depth 0 (for join planning)
        self.touched_outer = False
        self.aliases = {}  # select-list aliases (for HAVING / ORDER BY)
        self.allow_agg = False
        self.has_agg = False
        self.values_row = None  # for VALUES(col) inside ON DUPLICATE KEY UPDATE
        self.ctes = {}
        self.window_slots = {}
        self.window_nodes = []

    def find_cte(self, name):
        s = self
        while s is not None:
            if name in s.ctes:
                return s.ctes[name]
            s = s.parent
        return None


class Env:
    __slots__ = ('rows', 'outer', 'rt', 'group')

    def __init__(self, rows, outer, rt, group=None):
        self.rows = rows
        self.outer = outer
        self.rt = rt
        self.group = group


class Frame:
    """routine invocation frame."""
    __slots__ = ('vars', 'cursors', 'handlers', 'new', 'old', 'routine')

    def __init__(self, routine=None):
        self.vars = {}
        self.cursors = {}
        self.handlers = []
        self.new = None
        self.old = None
        self.routine = routine


class Runtime:
    __slots__ = ('sess', 'frame', 'params', 'results', 'eng', 'depth')

    def __init__(self, eng, sess, params=None, frame=None, results=None, depth=0):
        self.eng = eng
        self.sess = sess
        self.params = params
        self.frame = frame
        self.results = results if results is not None else []
        self.depth = depth


class ExprMixin:
    # ---- name resolution --------------------------------------------------------------------
    def c_col(self, scope, qual, name):
        lname = name.lower()
        lq = qual.lower() if qual else None
        if lq in ('new', 'old') and scope.trig_table is not None:
            t = scope.trig_table
            if lname not in t.colidx:
                raise MySQLError(1054, f"Unknown column '{name}' in '{qual}'")
            j = t.colidx[lname]
            if lq == 'new':
                return lambda env: env.rt.frame.new[j]
            return lambda env: env.rt.frame.old[j]
        if lq is None and scope.rvars is not None and lname in scope.rvars:
            return lambda env: env.rt.frame.vars[lname]
        if lq is None and getattr(scope, 'alias_first', False) and lname in scope.aliases:
            # HAVING / ORDER BY: select-list aliases are searched before the columns of the FROM tables
            return scope.aliases[lname]
        depth = 0
        s = scope
        while s is not None:
            hits = []
            for i, src in enumerate(s.sources):
                if lq is not None and src.alias != lq:
                    continue
                if lname in src.cols:
                    hits.append((i, src.cols.index(lname)))
            if len(hits) > 1:
                # USING-merged columns etc. are not supported; a genuine ambiguity is error 1052
                raise MySQLError(1052, f"Column '{name}' in field list is ambiguous", '23000')
            if hits:
                i, j = hits[0]
                if depth == 0:
                    s.touched.add(i)

                    def get0(env, i=i, j=j):
                        r = env.rows[i]
                        return None if r is None else r[j]
                    return get0
                sc = scope
                for _ in range(depth):
                    sc.touched_outer = True
                    sc = sc.parent

                def getn(env, i=i, j=j, depth=depth):
                    for _ in range(depth):
                        env = env.outer
                    r = env.rows[i]
                    return None if r is None else r[j]
                return getn
            s = s.parent
            depth += 1
        if lq is None and lname in scope.aliases:
            return scope.aliases[lname]
        raise MySQLError(1054, f"Unknown column '{(qual + '.') if qual else ''}{name}' in 'field list'", '42S22')

    def col_meta(self, scope, node):
        """Column object if node is a plain column of a base table at depth 0, else None."""
        if node[0] != 'col':
            return None
        lq = node[1].lower() if node[1] else None
        lname = node[2].lower()
        if lq is None and scope.rvars is not None and lname in scope.rvars:
            return None
        s = scope
        while s is not None:
            for src in s.sources:
                if lq is not None and src.alias != lq:
                    continue
                if lname in src.cols:
                    return src.colobjs[src.cols.index(lname)] if src.colobjs else None
            s = s.parent
        return None

    # ---- expressions ------------------------------------------------------------------------
    def c_expr(self, scope, n):
        k = n[0]
        m = getattr(self, 'ce_' + k, None)
        if m is None:
            raise UnsupportedSQL(f'expression node {k}')
        return m(scope, n)

    def ce_lit(self, scope, n):
        v = n[1]
        return lambda env: v

    def ce_declit(self, scope, n):
        v = D(n[1])
        return lambda env: v

    def ce_param(self, scope, n):
        i = n[1]

        def f(env):
            p = env.rt.params
            if p is None or i >= len(p):
                raise MySQLError(1064, 'not enough parameters for statement')
            return _from_py(p[i])
        return f

    def ce_nparam(self, scope, n):
        name = n[1]
        return lambda env: _from_py(env.rt.params[name])

    def ce_uvar(self, scope, n):
        name = n[1]
        return lambda env: env.rt.sess.uvars.get(name)

    def ce_uassign(self, scope, n):
        name = n[1]
        f = self.c_expr(scope, n[2])

        def g(env):
            v = f(env)
            env.rt.sess.uvars[name] = v
            return v
        return g

    def ce_col(self, scope, n):
        return self.c_col(scope, n[1], n[2])

    def ce_collate(self, scope, n):
        return self.c_expr(scope, n[1])

    def ce_binary(self, scope, n):
        return self.c_expr(scope, n[1])

    def ce_neg(self, scope, n):
        f = self.c_expr(scope, n[1])

        def g(env):
            v = f(env)
            return None if v is None else -to_num(v)
        return g

    def ce_bitnot(self, scope, n):
        f = self.c_expr(scope, n[1])
        return lambda env: (lambda v: None if v is None else (~int(to_num(v))) & 0xFFFFFFFFFFFFFFFF)(f(env))

    def ce_not(self, scope, n):
        f = self.c_expr(scope, n[1])

        def g(env):
            t = truth(f(env))
            return None if t is None else (0 if t else 1)
        return g

    def ce_and(self, scope, n):
        a = self.c_expr(scope, n[1])
        b = self.c_expr(scope, n[2])

        def g(env):
            x = truth(a(env))
            if x is False:
                return 0
            y = truth(b(env))
            if y is False:
                return 0
            if x is None or y is None:
                return None
            return 1
        return g

    def ce_or(self, scope, n):
        a = self.c_expr(scope, n[1])
        b = self.c_expr(scope, n[2])

        def g(env):
            x = truth(a(env))
            if x is True:
                return 1
            y = truth(b(env))
            if y is True:
                return 1
            if x is None or y is None:
                return None
            return 0
        return g

    def ce_xor(self, scope, n):
        a = self.c_expr(scope, n[1])
        b = self.c_expr(scope, n[2])

        def g(env):
            x, y = truth(a(env)), truth(b(env))
            if x is None or y is None:
                return None
            return 1 if x != y else 0
        return g

    def _cs(self, scope, *nodes):
        for nd in nodes:
            c = self.col_meta(scope, nd)
            if c is not None and c.cs:
                return True
            if nd[0] in ('binary',) or (nd[0] == 'collate' and (nd[2].endswith('_cs') or nd[2].endswith('_bin'))):
                return True
        return False

    def ce_cmp(self, scope, n):
        op = n[1]
        if n[2][0] == 'row' or n[3][0] == 'row':
            return self._row_cmp(scope, n)
        a = self.c_expr(scope, n[2])
        b = self.c_expr(scope, n[3])
        cs = self._cs(scope, n[2], n[3])
        if op == '=':
            def g(env):
                c = compare(a(env), b(env), cs)
                return None if c is None else (1 if c == 0 else 0)
        elif op in ('<>', '!='):
            def g(env):
                c = compare(a(env), b(env), cs)
                return None if c is None else (1 if c != 0 else 0)
        elif op == '<':
            def g(env):
                c = compare(a(env), b(env), cs)
                return None if c is None else (1 if c < 0 else 0)
        elif op == '<=':
            def g(env):
                c = compare(a(env), b(env), cs)
                return None if c is None else (1 if c <= 0 else 0)
        elif op == '>':
            def g(env):
                c = compare(a(env), b(env), cs)
                return None if c is None else (1 if c > 0 else 0)
        elif op == '>=':
            def g(env):
                c = compare(a(env), b(env), cs)
                return None if c is None else (1 if c >= 0 else 0)
        elif op == '<=>':
            def g(env):
                x, y = a(env), b(env)
                if x is None or y is None:
                    return 1 if (x is None and y is None) else 0
                return 1 if compare(x, y, cs) == 0 else 0
        else:
            raise UnsupportedSQL(op)
        return g

    def _row_cmp(self, scope, n):
        op = n[1]
        if n[2][0] != 'row' or n[3][0] != 'row' or len(n[2][1]) != len(n[3][1]):
            raise MySQLError(1241, 'Operand should contain the same number of columns')
        las = [self.c_expr(scope, x) for x in n[2][1]]
        rbs = [self.c_expr(scope, x) for x in n[3][1]]

        def g(env):
            unknown = False
            for a, b in zip(las, rbs):
                c = compare(a(env), b(env))
                if c is None:
                    unknown = True
                    continue
                if c != 0:
                    if op == '=':
                        return 0
                    if op in ('<>', '!='):
                        return 1
                    if unknown:
                        return None
                    if op in ('<', '<='):
                        return 1 if c < 0 else 0
                    return 1 if c > 0 else 0
            if unknown:
                return None
            return 1 if op in ('=', '<=', '>=') else 0
        return g

    def ce_isnull(self, scope, n):
        f = self.c_expr(scope, n[1])
        neg = n[2]
        if neg:
            return lambda env: 0 if f(env) is None else 1
        return lambda env: 1 if f(env) is None else 0

    def ce_istrue(self, scope, n):
        f = self.c_expr(scope, n[1])
        neg, want = n[2], n[3]

        def g(env):
            t = truth(f(env))
            r = (t is want)
            return (0 if r else 1) if neg else (1 if r else 0)
        return g

    def ce_in_list(self, scope, n):
        a = self.c_expr(scope, n[1])
        vs = [self.c_expr(scope, x) for x in n[2]]
        neg = n[3]
        cs = self._cs(scope, n[1])

        def g(env):
            x = a(env)
            if x is None:
                return None
            unknown = False
            for v in vs:
                c = compare(x, v(env), cs)
                if c is None:
                    unknown = True
                elif c == 0:
                    return 0 if neg else 1
            if unknown:
                return None
            return 1 if neg else 0
        return g

    def ce_in_query(self, scope, n):
        a = self.c_expr(scope, n[1]) if n[1][0] != 'row' else None
        arow = [self.c_expr(scope, x) for x in n[1][1]] if n[1][0] == 'row' else None
        q = self.c_query(scope, n[2])
        neg = n[3]

        def g(env):
            _c, rows = q(env)
            if arow is not None:
                x = [f(env) for f in arow]
                if any(v is None for v in x):
                    return None
                unknown = False
                for r in rows:
                    cs = [compare(p, qv) for p, qv in zip(x, r)]
                    if all(c == 0 for c in cs):
                        return 0 if neg else 1
                    if any(c is None for c in cs) and all(c in (0, None) for c in cs):
                        unknown = True
                return None if unknown else (1 if neg else 0)
            x = a(env)
            if x is None:
                return None if rows else (1 if neg else 0)
            unknown = False
            for r in rows:
                c = compare(x, r[0])
                if c is None:
                    unknown = True
                elif c == 0:
                    return 0 if neg else 1
            if unknown:
                return None
            return 1 if neg else 0
        return g

    def ce_between(self, scope, n):
        a, lo, hi = (self.c_expr(scope, x) for x in n[1:4])
        neg = n[4]

        def g(env):
            x = a(env)
            c1, c2 = compare(x, lo(env)), compare(x, hi(env))
            if c1 is None or c2 is None:
                if (c1 is not None and c1 < 0) or (c2 is not None and c2 > 0):
                    return 1 if neg else 0
                return None
            r = c1 >= 0 and c2 <= 0
            return (0 if r else 1) if neg else (1 if r else 0)
        return g

    def ce_like(self, scope, n):
        a = self.c_expr(scope, n[1])
        p = self.c_expr(scope, n[2])
        neg = n[3]
        cache = {}

        def g(env):
            x, pat = a(env), p(env)
            if x is None or pat is None:
                return None
            rx = cache.get(pat)
            if rx is None:
                rx = cache[pat] = like_to_regex(str(pat))
            r = rx.match(str(x)) is not None
            return (0 if r else 1) if neg else (1 if r else 0)
        return g

    def ce_regexp(self, scope, n):
        import re
        a = self.c_expr(scope, n[1])
        p = self.c_expr(scope, n[2])
        neg = n[3]

        def g(env):
            x, pat = a(env), p(env)
            if x is None or pat is None:
                return None
            r = re.search(pat, str(x), re.I) is not None
            return (0 if r else 1) if neg else (1 if r else 0)
        return g

    def ce_bin(self, scope, n):
        op = n[1]
        a = self.c_expr(scope, n[2])
        b = self.c_expr(scope, n[3])
        if op == '+':
            def g(env):
                x, y = a(env), b(env)
                if type(x) is int and type(y) is int:
                    return x + y
                return arith('+', x, y)
            return g
        if op == '*':
            def g(env):
                x, y = a(env), b(env)
                if type(x) is int and type(y) is int:
                    return x * y
                return arith('*', x, y)
            return g
        return lambda env: arith(op, a(env), b(env))

    def ce_case(self, scope, n):
        operand = self.c_expr(scope, n[1]) if n[1] is not None else None
        arms = [(self.c_expr(scope, c), self.c_expr(scope, v)) for c, v in n[2]]
        els = self.c_expr(scope, n[3]) if n[3] is not None else None

        def g(env):
            if operand is not None:
                x = operand(env)
                for c, v in arms:
                    if compare(x, c(env)) == 0:
                        return v(env)
            else:
                for c, v in arms:
                    if truth(c(env)):
                        return v(env)
            return els(env) if els is not None else None
        return g

    def ce_cast(self, scope, n):
        f = self.c_expr(scope, n[1])
        t = n[2]
        if t in ('SIGNED', 'UNSIGNED', 'INT', 'INTEGER', 'BIGINT'):
            def g(env):
                v = f(env)
                if v is None:
                    return None
                v = to_num(v)
                if isinstance(v, int):
                    return v
                return int(D(v).to_integral_value(rounding=decimal.ROUND_HALF_UP)) if not isinstance(v, D) \
                    else int(v.to_integral_value(rounding=decimal.ROUND_HALF_UP))
            return g
        if t in ('CHAR', 'VARCHAR', 'NCHAR', 'BINARY'):
            return lambda env: (lambda v: None if v is None else _to_str(v))(f(env))
        if t == 'DATE':
            def g(env):
                v = f(env)
                if v is None:
                    return None
                if isinstance(v, datetime.datetime):
                    return v.date()
                if isinstance(v, datetime.date):
                    return v
                return datetime.date.fromisoformat(str(v)[:10])
            return g
        if t in ('DECIMAL', 'NUMERIC'):
            return lambda env: (lambda v: None if v is None else D(str(to_num(v))))(f(env))
        if t in ('DOUBLE', 'FLOAT', 'REAL'):
            return lambda env: (lambda v: None if v is None else float(to_num(v)))(f(env))
        if t == 'JSON':
            return f
        raise UnsupportedSQL(f'CAST AS {t}')

    def ce_exists(self, scope, n):
        q = self.c_query(scope, n[1], exists=True)

        def g(env):
            _c, rows = q(env)
            return 1 if rows else 0
        return g

    def ce_subquery(self, scope, n):
        q = self.c_query(scope, n[1])

        def g(env):
            cols, rows = q(env)
            if len(rows) > 1:
                raise MySQLError(1242, 'Subquery returns more than 1 row', '21000')
            if not rows:
                return None
            if len(rows[0]) != 1:
                raise MySQLError(1241, 'Operand should contain 1 column(s)', '21000')
            return rows[0][0]
        return g

    def ce_row(self, scope, n):
        raise MySQLError(1241, 'Operand should contain 1 column(s)', '21000')

    def ce_default(self, scope, n):
        raise UnsupportedSQL('DEFAULT in expression')

    # ---- aggregates / windows ------------------------------------------------------------------
    def ce_agg(self, scope, n):
        if not scope.allow_agg:
            raise MySQLError(1111, 'Invalid use of group function')
        scope.has_agg = True
        fn, arg, distinct = n[1], n[2], n[3]
        scope.allow_agg = False
        try:
            if arg is None:
                fs = None
            elif arg[0] == 'row':
                fs = [self.c_expr(scope, x) for x in arg[1]]
            else:
                fs = [self.c_expr(scope, arg)]
        finally:
            scope.allow_agg = True

        def values(env):
            out = []
            rt, outer = env.rt, env.outer
            for rows in env.group:
                e = Env(rows, outer, rt)
                out.append(tuple(f(e) for f in fs))
            return out

        if fn == 'COUNT':
            if fs is None:
                return lambda env: len(env.group)

            def g(env):
                vs = [v for v in values(env) if all(x is not None for x in v)]
                if distinct:
                    return len({tuple(_hashable(x) for x in v) for v in vs})
                return len(vs)
            return g
        if fn == 'SUM' or fn == 'AVG':
            def g(env):
                vs = [to_num(v[0]) for v in values(env) if v[0] is not None]
                if distinct:
                    vs = list(dict.fromkeys(vs))
                if not vs:
                    return None
                if any(isinstance(v, float) for v in vs):
                    s = float(sum(float(v) for v in vs))
                    return s if fn == 'SUM' else s / len(vs)
                s = D(0)
                for v in vs:
                    s += D(v) if not isinstance(v, D) else v
                return s if fn == 'SUM' else s / len(vs)
            return g
        if fn in ('MIN', 'MAX'):
            def g(env):
                best = None
                for v in values(env):
                    v = v[0]
                    if v is None:
                        continue
                    if best is None:
                        best = v
                    else:
                        c = compare(v, best)
                        if (fn == 'MIN' and c < 0) or (fn == 'MAX' and c > 0):
                            best = v
                return best
            return g
        if fn == 'BIT_OR':
            def g(env):
                r = 0
                for v in values(env):
                    if v[0] is not None:
                        r |= int(to_num(v[0]))
                return r
            return g
        if fn == 'JSON_OBJECTAGG':
            def g(env):
                if not env.group:
                    return None
                d = {}
                for k, v in values(env):
                    if k is None:
                        raise MySQLError(3158, 'JSON documents may not contain NULL member names.')
                    d[str(k)] = _json_val(v)
                return json.dumps(d)
            return g
        if fn == 'JSON_ARRAYAGG':
            def g(env):
                if not env.group:
                    return None
                return json.dumps([_json_val(v[0]) for v in values(env)])
            return g
        raise UnsupportedSQL(f'aggregate {fn}')

    def ce_window(self, scope, n):
        # evaluated by the select machinery: it pre-computes values and stores them per row
        slot = scope.window_slots.setdefault(id(n), len(scope.window_slots))
        scope.window_nodes.append((slot, n))

        def g(env):
            return env.rows[-1][slot]
        return g

    # ---- functions -----------------------------------------------------------------------------
    def ce_func(self, scope, n):
        name = n[1]
        args = n[2]
        if name == 'VALUES':
            if scope.values_row is None or len(args) != 1 or args[0][0] != 'col':
                raise UnsupportedSQL('VALUES() outside ON DUPLICATE KEY UPDATE')
            t, holder = scope.values_row
            j = t.colidx[args[0][2].lower()]
            return lambda env: holder[0][j]
        fs = [self.c_expr(scope, a) for a in args]
        impl = _FUNCS.get(name)
        if impl is not None:
            return impl(fs)
        if name == 'RAND':
            return lambda env: env.rt.eng.rand()
        if name in ('UTC_DATE', 'CURRENT_DATE', 'CURDATE'):
            return lambda env: env.rt.eng.utcnow().date()
        if name in ('NOW', 'CURRENT_TIMESTAMP', 'UTC_TIMESTAMP', 'SYSDATE', 'LOCALTIME', 'LOCALTIMESTAMP'):
            return lambda env: env.rt.eng.utcnow().replace(microsecond=0)
        if name == 'UNIX_TIMESTAMP':
            if fs:
                raise UnsupportedSQL('UNIX_TIMESTAMP(arg)')
            return lambda env: int(env.rt.eng.now())
        if name == 'ROW_COUNT':
            return lambda env: env.rt.sess.row_count
        if name == 'LAST_INSERT_ID':
            return lambda env: env.rt.sess.last_insert_id
        if name == 'FOUND_ROWS':
            return lambda env: env.rt.sess.found_rows
        if name == 'DATABASE':
            return lambda env: 'batch'
        fn = self.functions.get(name.lower())
        if fn is not None:
            lname = name.lower()

            def g(env):
                return self.call_function(env.rt, lname, [f(env) for f in fs])
            return g
        raise UnsupportedSQL(f'function {name}')


def _hashable(x):
    return x.casefold() if isinstance(x, str) else x


def _json_val(v):
    if isinstance(v, D):
        return int(v) if v == v.to_integral_value() else float(v)
    if isinstance(v, (datetime.date, datetime.datetime)):
        return str(v)
    return v


def _from_py(v):
    if isinstance(v, bool):
        return int(v)
    if isinstance(v, (bytes, bytearray)):
        return bytes(v).decode('utf-8', 'replace')
    if isinstance(v, (list, tuple, dict, set)):
        raise MySQLError(1064, f'cannot bind python value of type {type(v).__name__}')
    return v


def _to_str(v):
    if isinstance(v, str):
        return v
    if isinstance(v, bool):
        return str(int(v))
    if isinstance(v, float):
        return repr(v) if v != int(v) else str(int(v))
    return str(v)


def _null_if_any(fs, body):
    def g(env):
        vs = [f(env) for f in fs]
        for v in vs:
            if v is None:
                return None
        return body(*vs)
    return g


def _coalesce(fs):
    def g(env):
        for f in fs:
            v = f(env)
            if v is not None:
                return v
        return None
    return g


def _if(fs):
    c, a, b = fs
    return lambda env: a(env) if truth(c(env)) else b(env)


def _nullif(fs):
    a, b = fs

    def g(env):
        x = a(env)
        return None if compare(x, b(env)) == 0 else x
    return g


def _extreme(sign):
    def mk(fs):
        def g(env):
            best = None
            for f in fs:
                v = f(env)
                if v is None:
                    return None
                if best is None or compare(v, best) * sign > 0:
                    best = v
            return best
        return g
    return mk


def _round(fs):
    def g(env):
        v = fs[0](env)
        if v is None:
            return None
        nd = int(fs[1](env)) if len(fs) > 1 else 0
        v = to_num(v)
        if isinstance(v, float):
            q = D(repr(v)).quantize(D(1).scaleb(-nd), rounding=decimal.ROUND_HALF_UP)
            return float(q) if nd > 0 else float(q)
        q = D(v).quantize(D(1).scaleb(-nd), rounding=decimal.ROUND_HALF_UP)
        return int(q) if (isinstance(v, int) or nd <= 0) and nd <= 0 else q
    return g


def _concat(fs):
    return _null_if_any(fs, lambda *vs: ''.join(_to_str(v) for v in vs))


def _substring(fs):
    def body(s, pos, ln=None):
        s = _to_str(s)
        pos = int(pos)
        if pos == 0:
            return ''
        start = pos - 1 if pos > 0 else len(s) + pos
        if start < 0:
            return ''
        return s[start:] if ln is None else s[start:start + max(int(ln), 0)]
    return _null_if_any(fs, body)


def _json_extract(fs):
    def body(doc, path):
        try:
            d = json.loads(doc) if isinstance(doc, str) else doc
        except ValueError:
            raise MySQLError(3141, 'Invalid JSON text') from None
        if not path.startswith('$'):
            raise MySQLError(3143, 'Invalid JSON path expression')
        cur = d
        import re
        for m in re.finditer(r'\.("([^"]*)"|[A-Za-z_][A-Za-z0-9_]*)|\[(\d+)\]', path[1:]):
            if m.group(3) is not None:
                i = int(m.group(3))
                if not isinstance(cur, list) or i >= len(cur):
                    return None
                cur = cur[i]
            else:
                k = m.group(2) if m.group(2) is not None else m.group(1)
                if not isinstance(cur, dict) or k not in cur:
                    return None
                cur = cur[k]
        return json.dumps(cur)
    return _null_if_any(fs, body)


def _json_object(fs):
    def g(env):
        vs = [f(env) for f in fs]
        d = {}
        for i in range(0, len(vs), 2):
            d[str(vs[i])] = _json_val(vs[i + 1])
        return json.dumps(d)
    return g


_FUNCS = {
    'COALESCE': _coalesce,
    'IFNULL': _coalesce,
    'IF': _if,
    'NULLIF': _nullif,
    'GREATEST': _extreme(1),
    'LEAST': _extreme(-1),
    'FLOOR': lambda fs: _null_if_any(fs, lambda v: (lambda x: x if isinstance(x, int) else (
        math.floor(x) if isinstance(x, float) else int(x.to_integral_value(rounding=decimal.ROUND_FLOOR))))(to_num(v))),
    'CEIL': lambda fs: _null_if_any(fs, lambda v: (lambda x: x if isinstance(x, int) else (
        math.ceil(x) if isinstance(x, float) else int(x.to_integral_value(rounding=decimal.ROUND_CEILING))))(to_num(v))),
    'CEILING': lambda fs: _null_if_any(fs, lambda v: (lambda x: x if isinstance(x, int) else (
        math.ceil(x) if isinstance(x, float) else int(x.to_integral_value(rounding=decimal.ROUND_CEILING))))(to_num(v))),
    'ROUND': _round,
    'ABS': lambda fs: _null_if_any(fs, lambda v: abs(to_num(v))),
    'POW': lambda fs: _null_if_any(fs, lambda a, b: float(to_num(a)) ** float(to_num(b))),
    'POWER': lambda fs: _null_if_any(fs, lambda a, b: float(to_num(a)) ** float(to_num(b))),
    'SQRT': lambda fs: _null_if_any(fs, lambda a: math.sqrt(to_num(a)) if to_num(a) >= 0 else None),
    'MOD': lambda fs: _null_if_any(fs, lambda a, b: arith('%', a, b)),
    'BIT_COUNT': lambda fs: _null_if_any(fs, lambda a: bin(int(to_num(a)) & 0xFFFFFFFFFFFFFFFF).count('1')),
    'CONCAT': _concat,
    'LOWER': lambda fs: _null_if_any(fs, lambda s: _to_str(s).lower()),
    'LCASE': lambda fs: _null_if_any(fs, lambda s: _to_str(s).lower()),
    'UPPER': lambda fs: _null_if_any(fs, lambda s: _to_str(s).upper()),
    'UCASE': lambda fs: _null_if_any(fs, lambda s: _to_str(s).upper()),
    'LENGTH': lambda fs: _null_if_any(fs, lambda s: len(_to_str(s).encode())),
    'CHAR_LENGTH': lambda fs: _null_if_any(fs, lambda s: len(_to_str(s))),
    'TRIM': lambda fs: _null_if_any(fs, lambda s: _to_str(s).strip(' ')),
    'SUBSTRING': _substring,
    'SUBSTR': _substring,
    'LEFT': lambda fs: _null_if_any(fs, lambda s, n: _to_str(s)[:max(int(n), 0)]),
    'RIGHT': lambda fs: _null_if_any(fs, lambda s, n: _to_str(s)[-int(n):] if int(n) > 0 else ''),
    'REPLACE': lambda fs: _null_if_any(fs, lambda s, a, b: _to_str(s).replace(_to_str(a), _to_str(b)) if a != '' else s),
    'JSON_EXTRACT': _json_extract,
    'JSON_UNQUOTE': lambda fs: _null_if_any(fs, lambda s: (json.loads(s) if isinstance(s, str) and s.startswith('"') else s)),
    'JSON_OBJECT': _json_object,
    'DATE': lambda fs: _null_if_any(fs, lambda v: v.date() if isinstance(v, datetime.datetime) else (
        v if isinstance(v, datetime.date) else datetime.date.fromisoformat(str(v)[:10]))),
    'ANY_VALUE': lambda fs: fs[0],
}
