"""SQL-level smoke test of the real batch routines on minimysql."""
import sys, time
sys.path.insert(0, '/verif')
from minimysql.loader import load_batch_schema
from minimysql.errors import MySQLError

eng = load_batch_schema('/repo')
s = eng.session()
X = lambda sql, p=None: eng.execute(s, sql, p)
def Q(sql, p=None):
    r = X(sql, p)
    return [dict(zip(r.cols, row)) for row in r.rows] if r.cols else r.affected

X("INSERT INTO globals (instance_id, internal_token, n_tokens) VALUES ('i', 't', 3)")
X("INSERT INTO feature_flags (compact_billing_tables, oms_agent, dockerhub_proxy) VALUES (0, 0, 0)")
X("INSERT INTO inst_colls (name, is_pool, boot_disk_size_gb, max_instances, max_live_instances, cloud, max_new_instances_per_autoscaler_loop, autoscaler_loop_period_secs, worker_max_idle_time_secs) VALUES ('standard', 1, 10, 10, 10, 'gcp', 5, 15, 30)")
X("INSERT INTO resources (resource, rate) VALUES ('compute/n1-preemptible/1', 0.001), ('memory/x', 0.002)")
X("UPDATE resources SET deduped_resource_id = resource_id")
X("INSERT INTO billing_projects (name, name_cs) VALUES ('bp', 'bp')")
X("INSERT INTO billing_project_users (billing_project, user, user_cs) VALUES ('bp', 'u1', 'u1')")
r = X("INSERT INTO batches (userdata, user, billing_project, attributes, callback, n_jobs, time_created, time_completed, token, state, format_version, cancel_after_n_failures, migrated_batch) VALUES ('{}', 'u1', 'bp', NULL, NULL, 0, 1, 1, 'tok', 'complete', 7, NULL, 1)")
bid = r.lastrowid
print('batch id', bid)
X("INSERT INTO job_groups (batch_id, job_group_id, `user`, attributes, cancel_after_n_failures, state, n_jobs, time_created, time_completed) VALUES (%s, 0, 'u1', NULL, NULL, 'complete', 0, 1, 1)", (bid,))
X("INSERT INTO job_group_self_and_ancestors (batch_id, job_group_id, ancestor_id, level) VALUES (%s, 0, 0, 0)", (bid,))
X("INSERT INTO job_groups_n_jobs_in_complete_states (id, job_group_id) VALUES (%s, 0)", (bid,))
X("INSERT INTO batch_updates (batch_id, update_id, token, start_job_group_id, n_job_groups, start_job_id, n_jobs, committed, time_created) VALUES (%s, 1, 'ut', 1, 1, 1, 3, 0, 1)", (bid,))
# job group 1 under root
X("INSERT INTO job_groups (batch_id, job_group_id, update_id, `user`, state, n_jobs, time_created) VALUES (%s, 1, 1, 'u1', 'complete', 0, 1)", (bid,))
X("INSERT INTO job_group_self_and_ancestors (batch_id, job_group_id, ancestor_id, level) VALUES (%s, 1, 1, 0), (%s, 1, 0, 1)", (bid, bid))
X("INSERT INTO job_groups_n_jobs_in_complete_states (id, job_group_id) VALUES (%s, 1)", (bid,))
for jid, st, npp, jg in ((1, 'Ready', 0, 0), (2, 'Pending', 1, 1), (3, 'Ready', 0, 1)):
    X("INSERT INTO jobs (batch_id, job_id, update_id, job_group_id, state, spec, always_run, cores_mcpu, n_pending_parents, inst_coll, n_regions, regions_bits_rep) VALUES (%s,%s,1,%s,%s,'{}',0,1000,%s,'standard',NULL,NULL)", (bid, jid, jg, st, npp))
X("INSERT INTO job_parents (batch_id, job_id, parent_id) VALUES (%s, 2, 1)", (bid,))
X("INSERT INTO job_groups_inst_coll_staging (batch_id, update_id, job_group_id, inst_coll, token, n_jobs, n_ready_jobs, ready_cores_mcpu) VALUES (%s,1,0,'standard',0,3,2,2000),(%s,1,1,'standard',1,2,1,1000) ON DUPLICATE KEY UPDATE n_jobs = n_jobs + VALUES(n_jobs)", (bid, bid))
X("INSERT INTO job_group_inst_coll_cancellable_resources (batch_id, update_id, job_group_id, inst_coll, token, n_ready_cancellable_jobs, ready_cancellable_cores_mcpu) VALUES (%s,1,0,'standard',0,2,2000),(%s,1,1,'standard',0,1,1000)", (bid, bid))
print('commit', Q("CALL commit_batch_update(%s, 1, 5)", (bid,)))
print(Q("SELECT id, state, n_jobs, time_completed FROM batches"))
print(Q("SELECT job_group_id, state, n_jobs FROM job_groups"))
print(Q("SELECT * FROM user_inst_coll_resources"))
X("INSERT INTO instances (name, state, activation_token, token, cores_mcpu, time_created, last_updated, version, location, inst_coll, machine_type, preemptible) VALUES ('w1','pending','at','tk',4000,1,1,1,'z','standard','n1',1)")
X("INSERT INTO instances_free_cores_mcpu (name, free_cores_mcpu) VALUES ('w1', 4000)")
print('activate', Q("CALL activate_instance('w1', '1.2.3.4', 10)"))
print('schedule', Q("CALL schedule_job(%s, 1, 'att1', 'w1')", (bid,)))
print(Q("SELECT * FROM instances_free_cores_mcpu"))
X("INSERT INTO attempt_resources (batch_id, job_id, attempt_id, quantity, resource_id, deduped_resource_id) VALUES (%s, 1, 'att1', 1000, 1, 1)", (bid,))
print('started', Q("CALL mark_job_started(%s, 1, 'att1', 'w1', 100)", (bid,)))
print('billing', Q("UPDATE attempts SET rollup_time = 150 WHERE batch_id=%s AND job_id=1 AND attempt_id='att1'", (bid,)))
print(Q("SELECT * FROM aggregated_job_resources_v3"))
print('cancel jg1', Q("CALL cancel_job_group(%s, 1)", (bid,)))
print('cancel batch', Q("CALL cancel_batch(%s)", (bid,)))
try:
    print('schedule 3', Q("CALL schedule_job(%s, 3, 'att3', 'w1')", (bid,)))
except MySQLError as e:
    print('schedule 3 ERROR', e)
s2 = eng.session(); eng.rollback(s)
print('complete', Q("CALL mark_job_complete(%s, 1, 'att1', 'w1', 'Failed', '{}', 100, 200, 'completed', 200)", (bid,)))
print(Q("SELECT job_id, state, cancelled, n_pending_parents, attempt_id FROM jobs"))
print(Q("SELECT * FROM user_inst_coll_resources"))
print(Q("SELECT * FROM job_groups_n_jobs_in_complete_states"))
print(Q("SELECT * FROM aggregated_job_group_resources_v3"))
print(Q("SELECT * FROM attempts"))
t = time.time()
for i in range(200):
    Q("CALL mark_job_complete(%s, 1, 'att1', 'w1', 'Failed', '{}', 100, 200, 'completed', 200)", (bid,))
print('200 MJC dup', time.time() - t)
