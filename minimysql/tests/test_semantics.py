"""Micro-tests pinning minimysql against DOCUMENTED MySQL 8.0 semantics.

Run:  cd /verif && /venv/bin/python -m minimysql.tests.test_semantics
      (prints one line per FAILED case with expected vs got, `KNOWN-DIVERGENCE <name>: <reason>` for the cases listed in
      KNOWN_DIVERGENCES, `FIXED? <name>` when such a case passes, then
      `N passed, K known divergences, U uncertain, M failed`; exit 1 iff M > 0)

Every case is a module-level function `test_*` (pytest can collect them).  Each cites the section of the
MySQL 8.0 Reference Manual it relies on (numbers from memory, titles are authoritative).  Expected values are what
a MySQL 8.0 server with default settings (sql_mode = ONLY_FULL_GROUP_BY,STRICT_TRANS_TABLES,NO_ZERO_IN_DATE,
NO_ZERO_DATE,ERROR_FOR_DIVISION_BY_ZERO,NO_ENGINE_SUBSTITUTION; default collation utf8mb4_0900_ai_ci; InnoDB;
client without CLIENT_FOUND_ROWS, as pymysql/aiomysql connect) returns through pymysql's default converters
(BIGINT -> int, DECIMAL -> decimal.Decimal, DOUBLE -> float, VARCHAR -> str, DATE -> datetime.date).

* `uncertain=True`: the manual does not pin the behaviour (or I am not sure); a disagreement is reported separately.
* `optional=True`:  construct the batch SQL does not use; if the interpreter rejects it loudly (UnsupportedSQL / 1064)
  it is reported as UNSUPPORTED, not as a failure.
"""
import datetime
import decimal
import sys

if __name__ == '__main__' and not __package__:
    sys.path.insert(0, '/verif')

from minimysql.engine import Engine  # noqa: E402
from minimysql.errors import MySQLError  # noqa: E402
from minimysql.lexer import SQLSyntaxError, UnsupportedSQL  # noqa: E402

D = decimal.Decimal
CLOCK = 1_700_000_000.0  # 2023-11-14 22:13:20 UTC

CASES = []
_MIS = []  # mismatches of the running case: (sql, expected, got)


class Mismatch(AssertionError):
    pass


class Rejected(Exception):
    """the interpreter refuses the statement loudly (UnsupportedSQL or a 1064 syntax error)."""


def case(uncertain=False, optional=False):
    def deco(fn):
        def wrapper():
            del _MIS[:]
            try:
                fn()
            except Rejected as e:
                if optional and 'pytest' in sys.modules:
                    import pytest
                    pytest.skip(f'unsupported: {e}')
                raise
            if _MIS:
                msg = ' || '.join(f'{s} :: expected {e} :: got {g}' for s, e, g in _MIS)
                if (uncertain or fn.__name__ in KNOWN_DIVERGENCES) and 'pytest' in sys.modules:
                    import pytest
                    pytest.xfail(msg)
                raise Mismatch(msg)
        wrapper.__name__ = fn.__name__
        wrapper.__doc__ = fn.__doc__
        wrapper.uncertain = uncertain
        wrapper.optional = optional
        CASES.append(wrapper)
        return wrapper
    return deco


def _norm(v):
    if isinstance(v, bool):
        return int(v)
    if isinstance(v, (list, tuple)):
        return tuple(_norm(x) for x in v)
    return v


def _same(got, exp, loose=False):
    got, exp = _norm(got), _norm(exp)
    if got is None or exp is None:
        return got is None and exp is None
    if isinstance(exp, tuple):
        return isinstance(got, tuple) and len(got) == len(exp) and all(_same(g, e, loose) for g, e in zip(got, exp))
    num = (int, float, D)
    if isinstance(exp, num) and isinstance(got, num):
        if not loose and type(got) is not type(exp):
            return False
        if isinstance(got, float) or isinstance(exp, float):
            return abs(float(got) - float(exp)) < 1e-9
        return got == exp
    if type(got) is not type(exp):
        return False
    return got == exp


def _r(v):
    return repr(_norm(v))


class DB:
    def __init__(self, rand=None):
        self.eng = Engine(rand=rand, clock=lambda: CLOCK)
        self.s = self.eng.session()

    def session(self):
        return self.eng.session()

    def run(self, sql, params=None, sess=None):
        try:
            return self.eng.execute(sess or self.s, sql, params)
        except (UnsupportedSQL, SQLSyntaxError) as e:
            raise Rejected(f'{type(e).__name__}: {e} [{sql[:70]}]') from None
        except MySQLError as e:
            if e.errno == 1064:
                raise Rejected(f'1064 {e.msg} [{sql[:70]}]') from None
            raise

    def setup(self, *sqls, sess=None):
        for q in sqls:
            self.run(q, None, sess)

    def _exec(self, sql, params, sess):
        """-> ('ok', Result) | ('err', MySQLError) | ('exc', Exception)"""
        try:
            return 'ok', self.run(sql, params, sess)
        except Rejected:
            raise
        except MySQLError as e:
            return 'err', e
        except Exception as e:  # an interpreter crash is a disagreement too
            return 'exc', e

    def check(self, sql, exp, params=None, loose=False, sess=None):
        """exp: scalar (first column of the single row) | tuple (the single row) | list of tuples (all rows)."""
        k, r = self._exec(sql, params, sess)
        if k != 'ok':
            _MIS.append((sql, _r(exp), f'{type(r).__name__} {getattr(r, "errno", "")} {r}'))
            return
        rows = [tuple(x) for x in (r.rows or [])]
        if isinstance(exp, list):
            ok = len(rows) == len(exp) and all(_same(g, e, loose) for g, e in zip(rows, exp))
            got = rows
        elif isinstance(exp, tuple):
            ok = len(rows) == 1 and _same(rows[0], exp, loose)
            got = rows[0] if len(rows) == 1 else rows
        else:
            ok = len(rows) == 1 and len(rows[0]) >= 1 and _same(rows[0][0], exp, loose)
            got = rows[0][0] if len(rows) == 1 and rows[0] else (rows if r.cols is not None else 'no result set')
        if not ok:
            _MIS.append((sql, _r(exp), _r(got)))

    def check_set(self, sql, exp, params=None, loose=False):
        """rows compared as a multiset (no ORDER BY)."""
        k, r = self._exec(sql, params, None)
        if k != 'ok':
            _MIS.append((sql, _r(exp), f'{type(r).__name__} {getattr(r, "errno", "")} {r}'))
            return
        rows = sorted((tuple(x) for x in (r.rows or [])), key=repr)
        e2 = sorted((tuple(x) for x in exp), key=repr)
        if not (len(rows) == len(e2) and all(_same(g, e, loose) for g, e in zip(rows, e2))):
            _MIS.append((sql, _r(e2), _r(rows)))

    def check_err(self, sql, errno, params=None, sess=None):
        k, r = self._exec(sql, params, sess)
        if k == 'err' and r.errno == errno:
            return
        got = 'no error' if k == 'ok' else f'{type(r).__name__} {getattr(r, "errno", "")} {r}'
        _MIS.append((sql, f'error {errno}', got))

    def check_ok(self, sql, params=None, sess=None):
        k, r = self._exec(sql, params, sess)
        if k != 'ok':
            _MIS.append((sql, 'no error', f'{type(r).__name__} {getattr(r, "errno", "")} {r}'))
            return None
        return r

    def check_affected(self, sql, n, params=None, sess=None):
        k, r = self._exec(sql, params, sess)
        if k != 'ok':
            _MIS.append((sql, f'affected={n}', f'{type(r).__name__} {getattr(r, "errno", "")} {r}'))
            return None
        if r.affected != n:
            _MIS.append((sql, f'affected={n}', f'affected={r.affected}'))
        return r


def note(sql, exp, got):
    _MIS.append((sql, exp, got))


# =====================================================================================================
# 1. Three-valued logic, comparison operators, flow-control functions
# =====================================================================================================

@case()
def test_and_with_null():
    # 12.4.3 Logical Operators: AND is 0 if any operand is 0, else NULL if any operand is NULL
    db = DB()
    db.check('SELECT NULL AND 0', 0)
    db.check('SELECT 0 AND NULL', 0)
    db.check('SELECT NULL AND 1', None)
    db.check('SELECT 1 AND NULL', None)
    db.check('SELECT 1 AND 1', 1)


@case()
def test_or_with_null():
    # 12.4.3 Logical Operators: OR is 1 if any operand is non-zero, else NULL if any operand is NULL
    db = DB()
    db.check('SELECT NULL OR 1', 1)
    db.check('SELECT 1 OR NULL', 1)
    db.check('SELECT NULL OR 0', None)
    db.check('SELECT 0 OR 0', 0)


@case()
def test_not_with_null():
    # 12.4.3 Logical Operators: NOT NULL is NULL; NOT of non-zero is 0
    db = DB()
    db.check('SELECT NOT NULL', None)
    db.check('SELECT NOT 0', 1)
    db.check('SELECT NOT 5', 0)


@case()
def test_xor_with_null():
    # 12.4.3 Logical Operators: XOR returns NULL if either operand is NULL
    db = DB()
    db.check('SELECT 1 XOR NULL', None)
    db.check('SELECT 1 XOR 1', 0)
    db.check('SELECT 1 XOR 0', 1)


@case()
def test_not_binds_tighter_than_and():
    # 12.4.1 Operator Precedence: NOT is above AND; is_job_cancelled uses `NOT j.always_run AND (...)`
    db = DB()
    db.check('SELECT NOT 0 AND 0', 0)   # (NOT 0) AND 0, not NOT (0 AND 0)
    db.check('SELECT NOT 1 AND NULL', 0)
    db.check('SELECT NOT 0 AND NULL', None)


@case()
def test_not_below_comparison_bang_above():
    # 12.4.1 Operator Precedence: comparison binds tighter than NOT, `!` binds tighter than comparison
    db = DB()
    db.check('SELECT NOT 1 = 2', 1)
    db.check('SELECT ! 1 = 2', 0)


@case()
def test_and_binds_tighter_than_or():
    # 12.4.1 Operator Precedence
    db = DB()
    db.check('SELECT 1 OR 0 AND 0', 1)
    db.check('SELECT 0 AND 0 OR 1', 1)


@case()
def test_comparison_with_null_is_null():
    # 12.4.2 Comparison Functions and Operators: =, <>, <, > with NULL yield NULL
    db = DB()
    for e in ('NULL = NULL', '1 = NULL', '1 <> NULL', 'NULL < 1', 'NULL >= NULL', "'a' != NULL"):
        db.check(f'SELECT {e}', None)


@case()
def test_null_safe_equal():
    # 12.4.2: <=> NULL-safe equal
    db = DB()
    db.check('SELECT NULL <=> NULL', 1)
    db.check('SELECT 1 <=> NULL', 0)
    db.check('SELECT 1 <=> 1', 1)
    db.check('SELECT 1 <=> 2', 0)


@case()
def test_is_null_is_not_null():
    # 12.4.2: IS NULL / IS NOT NULL never return NULL
    db = DB()
    db.check('SELECT NULL IS NULL', 1)
    db.check('SELECT 0 IS NULL', 0)
    db.check('SELECT NULL IS NOT NULL', 0)
    db.check("SELECT '' IS NOT NULL", 1)


@case()
def test_is_true_is_false():
    # 12.4.2: IS boolean_value tests against TRUE/FALSE/UNKNOWN and never returns NULL
    db = DB()
    db.check('SELECT NULL IS TRUE', 0)
    db.check('SELECT NULL IS NOT TRUE', 1)
    db.check('SELECT 2 IS TRUE', 1)
    db.check('SELECT 0 IS FALSE', 1)
    db.check('SELECT NULL IS FALSE', 0)


@case()
def test_in_list_with_null():
    # 12.4.2 IN(): NULL if the left side is NULL, or if no match is found and one list element is NULL
    db = DB()
    db.check('SELECT 1 IN (1, NULL)', 1)
    db.check('SELECT 2 IN (1, NULL)', None)
    db.check('SELECT NULL IN (1, 2)', None)
    db.check('SELECT 2 IN (1, 3)', 0)


@case()
def test_not_in_list_with_null():
    # 12.4.2 NOT IN is NOT (expr IN (...))
    db = DB()
    db.check('SELECT 2 NOT IN (1, NULL)', None)
    db.check('SELECT 1 NOT IN (1, NULL)', 0)
    db.check('SELECT 2 NOT IN (1, 3)', 1)
    db.check('SELECT NULL NOT IN (1)', None)


@case()
def test_where_null_filters_row():
    # 13.2.13 SELECT: rows are selected only if where_condition is true (NULL is not true)
    db = DB()
    db.setup('CREATE TABLE t (id INT PRIMARY KEY, v INT)', 'INSERT INTO t VALUES (1, NULL), (2, 0), (3, 5)')
    db.check('SELECT id FROM t WHERE v ORDER BY id', [(3,)])
    db.check('SELECT id FROM t WHERE NOT v ORDER BY id', [(2,)])
    db.check('SELECT id FROM t WHERE v <> 5 ORDER BY id', [(2,)])
    db.check('SELECT id FROM t WHERE v NOT IN (5) ORDER BY id', [(2,)])


@case()
def test_between_with_null():
    # 12.4.2 BETWEEN: equivalent to (min <= expr AND expr <= max)
    db = DB()
    db.check('SELECT 2 BETWEEN 1 AND 3', 1)
    db.check('SELECT 2 BETWEEN 1 AND NULL', None)
    db.check('SELECT 0 BETWEEN 1 AND NULL', 0)
    db.check('SELECT 2 NOT BETWEEN 1 AND 3', 0)


@case()
def test_row_comparison():
    # 12.4.2 / 13.2.15.5 Row Subqueries: (a,b) = (x,y) is a = x AND b = y; (a,b) < (x,y) is lexicographic
    db = DB()
    db.check('SELECT (1, 2) = (1, 2)', 1)
    db.check('SELECT (1, NULL) = (1, 2)', None)
    db.check('SELECT (1, NULL) = (2, 2)', 0)
    db.check('SELECT (1, 5) < (2, 0)', 1)
    db.check('SELECT (2, 1) > (2, 0)', 1)


@case()
def test_chained_equals_left_assoc():
    # 12.4.1: comparison operators of equal precedence evaluate left to right: (2 = 2) = 1
    db = DB()
    db.check('SELECT 2 = 2 = 1', 1)
    db.check('SELECT 2 = 2 = 2', 0)


@case()
def test_coalesce_ifnull():
    # 12.4.2 COALESCE: first non-NULL; 12.5 IFNULL
    db = DB()
    db.check('SELECT COALESCE(NULL, NULL, 3)', 3)
    db.check('SELECT COALESCE(NULL, NULL)', None)
    db.check('SELECT COALESCE(0, 3)', 0)
    db.check('SELECT IFNULL(NULL, 2)', 2)
    db.check('SELECT IFNULL(1, 2)', 1)
    db.check('SELECT COALESCE(NULL - 5, 0)', 0)


@case()
def test_nullif():
    # 12.5 Flow Control Functions: NULLIF(a, b) is NULL if a = b else a
    db = DB()
    db.check('SELECT NULLIF(1, 1)', None)
    db.check('SELECT NULLIF(1, 2)', 1)
    db.check('SELECT NULLIF(NULL, 1)', None)
    db.check("SELECT NULLIF('a', 'A')", None)  # default collation is case-insensitive


@case()
def test_if_function():
    # 12.5: IF(e1, e2, e3) returns e2 if e1 is TRUE (e1 <> 0 and e1 IS NOT NULL) else e3
    db = DB()
    db.check("SELECT IF(NULL, 'a', 'b')", 'b')
    db.check("SELECT IF(0, 'a', 'b')", 'b')
    db.check("SELECT IF(2, 'a', 'b')", 'a')
    db.check("SELECT IF('abc', 'a', 'b')", 'b')  # 'abc' converts to 0
    db.check("SELECT IF(1 = 1, 'Ready', 'Pending')", 'Ready')


@case()
def test_case_expression_null():
    # 12.5 CASE: `CASE value WHEN compare_value` uses =, so NULL never matches; no match and no ELSE gives NULL
    db = DB()
    db.check('SELECT CASE NULL WHEN NULL THEN 1 ELSE 2 END', 2)
    db.check('SELECT CASE WHEN NULL THEN 1 ELSE 2 END', 2)
    db.check('SELECT CASE 3 WHEN 1 THEN 1 END', None)
    db.check("SELECT CASE 'a' WHEN 'A' THEN 1 ELSE 2 END", 1)
    db.check('SELECT CASE WHEN 1 > 0 THEN 10 WHEN 2 > 0 THEN 20 END', 10)


# =====================================================================================================
# 2. Arithmetic, numeric types, conversion
# =====================================================================================================

@case()
def test_division_gives_decimal():
    # 12.6.1 Arithmetic Operators: `/` on exact values yields DECIMAL (scale + div_precision_increment = 4)
    db = DB()
    db.check('SELECT 5 / 2', D('2.5'))
    db.check('SELECT 4 / 2', D('2'))  # DECIMAL 2.0000, not BIGINT


@case()
def test_division_scale_is_four_digits():
    # 12.6.1: "the scale of the result is the scale of the first operand plus div_precision_increment (4)"
    db = DB()
    db.check('SELECT 1 / 3', D('0.3333'))
    db.check('SELECT 2 / 3', D('0.6667'))


@case()
def test_division_by_zero_is_null():
    # 12.6.1: division by zero produces NULL (a warning in SELECT even with ERROR_FOR_DIVISION_BY_ZERO)
    db = DB()
    db.check('SELECT 1 / 0', None)
    db.check('SELECT 1 DIV 0', None)
    db.check('SELECT 1 MOD 0', None)
    db.check('SELECT 1 / NULL', None)


@case()
def test_div_integer_division():
    # 12.6.1 DIV: integer division, discards the fractional part (truncates toward zero)
    db = DB()
    db.check('SELECT 5 DIV 2', 2)
    db.check('SELECT -5 DIV 2', -2)
    db.check('SELECT 5 DIV -2', -2)
    db.check('SELECT 7 DIV 7', 1)
    db.check('SELECT 5.9 DIV 2', 2)


@case()
def test_mod_sign_follows_dividend():
    # 12.6.2 MOD(N, M) / N % M / N MOD M: remainder with the sign of N
    db = DB()
    db.check('SELECT 5 MOD 3', 2)
    db.check('SELECT -5 MOD 3', -2)
    db.check('SELECT 5 % -3', 2)
    db.check('SELECT MOD(10, 4)', 2)
    db.check('SELECT 7 %% 4', 3)  # pymysql-style escaped percent


@case()
def test_arith_precedence():
    # 12.4.1: * / DIV % MOD bind tighter than + -; unary minus tighter still
    db = DB()
    db.check('SELECT 1 + 2 * 3', 7)
    db.check('SELECT -2 * 3 + 1', -5)
    db.check('SELECT 7 - 4 - 2', 1)
    db.check('SELECT 8 DIV 2 * 3', 12)


@case()
def test_arith_with_null():
    # 12.6.1: any arithmetic with NULL is NULL
    db = DB()
    db.check('SELECT 1 + NULL', None)
    db.check('SELECT -NULL', None)
    db.check('SELECT NULL * 0', None)
    db.check('SELECT 5 - NULL', None)


@case()
def test_boolean_is_tinyint_arithmetic():
    # 11.1.1 BOOL is a synonym for TINYINT(1); 9.1.6 TRUE/FALSE evaluate to 1/0; jobs_after_update does
    # (-1 * was_ready * was_cancellable) + (now_ready * (NOT now_cancelled))
    db = DB()
    db.check('SELECT TRUE + TRUE', 2)
    db.check('SELECT (1 = 1) + (2 = 2)', 2)
    db.check('SELECT (-1 * (1 = 1) * (NOT 0)) + ((1 = 2) * 1)', -1)
    db.check("SELECT 3 + ('x' = 'y')", 3)
    db.check('SELECT (-1 * NULL * 1) + 1', None)


@case()
def test_boolean_column_stores_integers():
    # 11.1.1: BOOLEAN column is TINYINT(1): stores any tinyint, TRUE -> 1
    db = DB()
    db.setup('CREATE TABLE t (id INT PRIMARY KEY, b BOOLEAN NOT NULL DEFAULT FALSE)',
             'INSERT INTO t (id, b) VALUES (1, TRUE), (2, 5)', 'INSERT INTO t (id) VALUES (3)')
    db.check('SELECT b FROM t ORDER BY id', [(1,), (5,), (0,)])
    db.check('SELECT id FROM t WHERE b ORDER BY id', [(1,), (2,)])
    db.check('SELECT id FROM t WHERE b = TRUE ORDER BY id', [(1,)])  # 5 = 1 is false


@case()
def test_string_number_comparison():
    # 12.3 Type Conversion in Expression Evaluation: string vs number compares as numbers (leading numeric prefix)
    db = DB()
    db.check("SELECT 1 = '1'", 1)
    db.check("SELECT 'abc' = 0", 1)
    db.check("SELECT '1abc' = 1", 1)
    db.check("SELECT '1e2' = 100", 1)
    db.check("SELECT '2' > 10", 0)
    db.check("SELECT '2' > '10'", 1)  # both strings: string comparison


@case()
def test_string_in_arithmetic():
    # 12.3: strings are converted to numbers in arithmetic context
    db = DB()
    db.check("SELECT 1 + '1'", 2, loose=True)  # DOUBLE in MySQL
    db.check("SELECT '3' * '4'", 12, loose=True)
    db.check("SELECT 'x' + 1", 1, loose=True)


@case()
def test_varchar_param_vs_bigint_column():
    # 12.3: cancel_job_group takes in_batch_id VARCHAR(100) and compares it with BIGINT columns
    db = DB()
    db.setup('CREATE TABLE t (id BIGINT PRIMARY KEY, v INT)', 'INSERT INTO t VALUES (1, 10), (12, 20)')
    db.check("SELECT v FROM t WHERE id = '12'", 20)
    db.check("SELECT v FROM t WHERE id = '1.0'", 10)
    db.check("SELECT COUNT(*) FROM t WHERE id = 'x'", 0)
    db.check("SELECT v FROM t WHERE id = %s", 20, params=('12',))


@case()
def test_varchar_column_vs_number():
    # 12.3: comparing a string column with a number converts the column value to a number (no index use)
    db = DB()
    db.setup('CREATE TABLE t (name VARCHAR(20) PRIMARY KEY)', "INSERT INTO t VALUES ('1abc'), ('2'), ('x')")
    db.check_set('SELECT name FROM t WHERE name = 1', [('1abc',)])
    db.check_set('SELECT name FROM t WHERE name = 0', [('x',)])


@case()
def test_decimal_literals_are_exact():
    # 12.25 Precision Math: literals with a decimal point are exact DECIMAL; with exponent approximate DOUBLE
    db = DB()
    db.check('SELECT 0.1 + 0.2 = 0.3', 1)
    db.check('SELECT 0.1e0 + 0.2e0 = 0.3e0', 0)
    db.check('SELECT 1.5 + 1', D('2.5'))
    db.check('SELECT 2 * 1.5', D('3.0'))


@case()
def test_cast_signed():
    # 12.11 Cast Functions: CAST(x AS SIGNED) -> BIGINT; DECIMAL rounds half away from zero (12.25.4)
    db = DB()
    db.check('SELECT CAST(1.5 AS SIGNED)', 2)
    db.check('SELECT CAST(-1.5 AS SIGNED)', -2)
    db.check('SELECT CAST(2.4 AS SIGNED)', 2)
    db.check('SELECT CAST(NULL AS SIGNED)', None)
    db.check("SELECT CAST('12abc' AS SIGNED)", 12)
    db.check('SELECT CAST(COALESCE(NULL, 0) AS SIGNED)', 0)


@case(uncertain=True)
def test_cast_string_fraction_signed_truncates():
    # 12.11: a string is converted with integer parsing ("Truncated incorrect INTEGER value"): '1.9' -> 1.
    # Not spelled out in the manual; observed MySQL behaviour.
    db = DB()
    db.check("SELECT CAST('1.9' AS SIGNED)", 1)


@case()
def test_cast_unsigned():
    # 12.11: CAST(-1 AS UNSIGNED) = 18446744073709551615 (64-bit wrap)
    db = DB()
    db.check('SELECT CAST(-1 AS UNSIGNED)', 18446744073709551615)
    db.check('SELECT CAST(5 AS UNSIGNED)', 5)


@case()
def test_cast_sum_signed_is_int():
    # 12.20.1: SUM of exact values returns DECIMAL; 12.11: CAST(... AS SIGNED) returns an integer
    # (the Python code relies on CAST(COALESCE(SUM(x), 0) AS SIGNED) everywhere)
    db = DB()
    db.setup('CREATE TABLE t (v BIGINT)', 'INSERT INTO t VALUES (1), (2)')
    db.check('SELECT SUM(v) FROM t', D('3'))
    db.check('SELECT CAST(COALESCE(SUM(v), 0) AS SIGNED) FROM t', 3)
    db.check('SELECT CAST(COALESCE(SUM(v), 0) AS SIGNED) FROM t WHERE v > 5', 0)


@case()
def test_cast_char():
    # 12.11: CAST(x AS CHAR)
    db = DB()
    db.check('SELECT CAST(5 AS CHAR)', '5')
    db.check('SELECT CAST(1.50 AS CHAR)', '1.50')
    db.check('SELECT CAST(NULL AS CHAR)', None)


@case()
def test_greatest_least_null():
    # 12.4.2 GREATEST/LEAST: return NULL if any argument is NULL
    db = DB()
    db.check('SELECT GREATEST(1, NULL)', None)
    db.check('SELECT LEAST(NULL, 1)', None)
    db.check('SELECT GREATEST(1, 3, 2)', 3)
    db.check('SELECT LEAST(4, 3, 5)', 3)
    db.check('SELECT GREATEST(COALESCE(NULL - 1, 0), 0)', 0)
    db.check('SELECT GREATEST(COALESCE(7 - 10, 0), 0)', 0)
    db.check('SELECT GREATEST(COALESCE(10 - 7, 0), 0)', 3)


@case()
def test_greatest_mixed_exact():
    # 12.4.2 GREATEST: if arguments mix integer and DECIMAL they are compared as DECIMAL and the result is DECIMAL
    db = DB()
    db.check('SELECT GREATEST(1, 2.5)', D('2.5'))
    db.check('SELECT LEAST(1, 2.5)', D('1'), loose=True)


@case()
def test_floor_ceil():
    # 12.6.2 Mathematical Functions: FLOOR/CEIL of exact values return an integer
    db = DB()
    db.check('SELECT FLOOR(2.7)', 2)
    db.check('SELECT FLOOR(-2.5)', -3)
    db.check('SELECT CEIL(2.1)', 3)
    db.check('SELECT CEILING(-2.5)', -2)
    db.check('SELECT FLOOR(NULL)', None)
    db.check('SELECT FLOOR(7)', 7)


@case()
def test_floor_rand_times_n():
    # 12.6.2 RAND(): 0 <= v < 1.0; triggers compute FLOOR(RAND() * cur_n_tokens)
    db = DB(rand=lambda: 0.999)
    db.check('SELECT FLOOR(RAND() * 3)', 2, loose=True)
    db.check('SELECT FLOOR(RAND() * NULL)', None)
    db2 = DB(rand=lambda: 0.0)
    db2.check('SELECT FLOOR(RAND() * 3)', 0, loose=True)


@case()
def test_round_half_away_from_zero():
    # 12.25.4 Rounding Behavior: exact values round half away from zero
    db = DB()
    db.check('SELECT ROUND(2.5)', 3, loose=True)
    db.check('SELECT ROUND(-2.5)', -3, loose=True)
    db.check('SELECT ROUND(2.567, 2)', D('2.57'))
    db.check('SELECT ROUND(NULL)', None)


@case()
def test_bigint_overflow_is_error():
    # 12.6.1 / 11.1.7 Out-of-Range and Overflow Handling: BIGINT overflow in an expression is error 1690
    db = DB()
    db.check_err('SELECT 9223372036854775807 + 1', 1690)
    db.check('SELECT 9223372036854775806 + 1', 9223372036854775807)


@case()
def test_bit_operators():
    # 12.13 Bit Functions and Operators (regions bitsets): & | << >> BIT_COUNT; NULL operand gives NULL
    db = DB()
    db.check('SELECT 5 & 3', 1)
    db.check('SELECT 5 | 2', 7)
    db.check('SELECT 1 << 3', 8)
    db.check('SELECT 6 >> 1', 3)
    db.check('SELECT BIT_COUNT(7)', 3)
    db.check('SELECT BIT_COUNT(0)', 0)
    db.check('SELECT NULL & 1', None)
    db.check('SELECT BIT_COUNT(NULL)', None)
    db.check('SELECT 1 << 63', 9223372036854775808)
    db.check('SELECT 1 << 64', 0)


@case()
def test_bit_operator_precedence():
    # 12.4.1: + above << above & above | above comparison
    db = DB()
    db.check('SELECT 1 | 2 & 3', 3)
    db.check('SELECT 1 << 2 + 1', 8)
    db.check('SELECT 6 & 3 = 2', 1)
    db.check('SELECT (5 & 4) != 0', 1)


# =====================================================================================================
# 3. Strings, LIKE, collations
# =====================================================================================================

@case()
def test_concat_null_and_numbers():
    # 12.8 String Functions: CONCAT returns NULL if any argument is NULL; numbers are converted to strings
    db = DB()
    db.check("SELECT CONCAT('a', NULL)", None)
    db.check("SELECT CONCAT('a', 1, 'b')", 'a1b')
    db.check("SELECT CONCAT('a', 2.5)", 'a2.5')
    db.check("SELECT CONCAT('', '')", '')


@case()
def test_substring():
    # 12.8 SUBSTRING(str, pos[, len]): 1-based; negative pos counts from the end; pos 0 gives ''
    db = DB()
    db.check("SELECT SUBSTRING('hello', 2, 3)", 'ell')
    db.check("SELECT SUBSTRING('hello', -3)", 'llo')
    db.check("SELECT SUBSTRING('hello', -3, 2)", 'll')
    db.check("SELECT SUBSTRING('hello', 0)", '')
    db.check("SELECT SUBSTRING('hello', 10)", '')
    db.check("SELECT SUBSTR('hello', 4)", 'lo')
    db.check("SELECT SUBSTRING(NULL, 1)", None)


@case()
def test_length_char_length():
    # 12.8: LENGTH is in bytes, CHAR_LENGTH in characters (utf8mb4)
    db = DB()
    db.check("SELECT LENGTH('héllo')", 6)
    db.check("SELECT CHAR_LENGTH('héllo')", 5)
    db.check("SELECT LENGTH('')", 0)
    db.check("SELECT LENGTH(NULL)", None)


@case()
def test_lower_upper_replace_trim_left_right():
    # 12.8: LOWER/UPPER; REPLACE is case-sensitive; TRIM removes spaces; LEFT/RIGHT
    db = DB()
    db.check("SELECT LOWER('AbC')", 'abc')
    db.check("SELECT UPPER('AbC')", 'ABC')
    db.check("SELECT REPLACE('Hello', 'l', 'L')", 'HeLLo')
    db.check("SELECT REPLACE('abc', 'B', 'x')", 'abc')
    db.check("SELECT TRIM('  a b  ')", 'a b')
    db.check("SELECT LEFT('hello', 2)", 'he')
    db.check("SELECT RIGHT('hello', 3)", 'llo')


@case(optional=True)
def test_lpad():
    # 12.8 LPAD (not used by the batch SQL)
    db = DB()
    db.check("SELECT LPAD('5', 3, '0')", '005')
    db.check("SELECT LPAD('hello', 2, '0')", 'he')


@case()
def test_like_basics():
    # 12.8.1 String Comparison Functions: LIKE with % and _, case-insensitive under the default collation,
    # backslash escapes the wildcard; NULL operand gives NULL
    db = DB()
    db.check("SELECT 'abc' LIKE 'ABC'", 1)
    db.check("SELECT 'abc' LIKE 'a%'", 1)
    db.check("SELECT 'abc' LIKE 'a_'", 0)
    db.check("SELECT 'abc' LIKE 'a_c'", 1)
    db.check("SELECT 'abc' LIKE '%b%'", 1)
    db.check("SELECT 'a%c' LIKE 'a\\%c'", 1)
    db.check("SELECT 'abc' LIKE 'a\\%c'", 0)
    db.check("SELECT NULL LIKE 'a'", None)
    db.check("SELECT 'abc' NOT LIKE 'x%'", 1)
    db.check("SELECT 'abc ' LIKE 'abc'", 0)


@case()
def test_like_on_cs_column_is_case_sensitive():
    # 12.8.1 LIKE: "case-insensitive unless one of the operands has a case-sensitive collation"
    db = DB()
    db.setup('CREATE TABLE t (id INT PRIMARY KEY, c VARCHAR(20) COLLATE utf8mb4_0900_as_cs)',
             "INSERT INTO t VALUES (1, 'abc')")
    db.check("SELECT COUNT(*) FROM t WHERE c LIKE 'ABC'", 0)
    db.check("SELECT COUNT(*) FROM t WHERE c LIKE 'ab%'", 1)


@case()
def test_default_collation_case_insensitive():
    # 10.1 / 10.8: utf8mb4_0900_ai_ci compares 'A' = 'a'
    db = DB()
    db.setup('CREATE TABLE t (id INT PRIMARY KEY, name VARCHAR(20))', "INSERT INTO t VALUES (1, 'Ready')")
    db.check("SELECT 'a' = 'A'", 1)
    db.check("SELECT COUNT(*) FROM t WHERE name = 'READY'", 1)
    db.check("SELECT COUNT(*) FROM t WHERE name <> 'ready'", 0)
    db.check("SELECT COUNT(*) FROM t WHERE name IN ('x', 'rEADY')", 1)
    db.check("SELECT 'a' < 'B'", 1)


@case()
def test_default_collation_no_pad():
    # 10.10.1 Unicode Character Sets: utf8mb4_0900_* collations are NO PAD: trailing spaces are significant
    db = DB()
    db.setup('CREATE TABLE t (id INT PRIMARY KEY, name VARCHAR(20))', "INSERT INTO t VALUES (1, 'abc')")
    db.check("SELECT COUNT(*) FROM t WHERE name = 'abc '", 0)
    db.check("SELECT COUNT(*) FROM t WHERE name = 'abc'", 1)


@case()
def test_default_collation_accent_insensitive():
    # 10.10.1: utf8mb4_0900_ai_ci is accent-insensitive: 'e' = 'é'
    db = DB()
    db.setup('CREATE TABLE t (id INT PRIMARY KEY, name VARCHAR(20))', "INSERT INTO t VALUES (1, 'resume')")
    db.check("SELECT COUNT(*) FROM t WHERE name = 'résumé'", 1)


@case()
def test_cs_column_comparison():
    # 10.8.1 / 10.8.4: a column declared COLLATE utf8mb4_0900_as_cs (billing_projects.name_cs,
    # billing_project_users.user_cs) compares case-sensitively; the column's collation wins over a literal's
    db = DB()
    db.setup('CREATE TABLE t (name VARCHAR(20) NOT NULL, name_cs VARCHAR(20) NOT NULL COLLATE utf8mb4_0900_as_cs, '
             'PRIMARY KEY (name))', "INSERT INTO t VALUES ('abc', 'abc')")
    db.check("SELECT COUNT(*) FROM t WHERE name_cs = 'ABC'", 0)
    db.check("SELECT COUNT(*) FROM t WHERE name_cs = 'abc'", 1)
    db.check("SELECT COUNT(*) FROM t WHERE name = 'ABC'", 1)
    db.check("SELECT COUNT(*) FROM t WHERE name_cs IN ('ABC', 'Abc')", 0)
    db.check("SELECT COUNT(*) FROM t WHERE name_cs != 'ABC'", 1)
    db.check("SELECT COUNT(*) FROM t WHERE name_cs = %s", 0, params=('ABC',))


@case()
def test_cs_unique_index_and_ci_primary_key():
    # 10.8 + 13.1.20 CREATE TABLE: uniqueness is decided by the column collation
    db = DB()
    db.setup('CREATE TABLE t (name VARCHAR(20) NOT NULL, name_cs VARCHAR(20) NOT NULL COLLATE utf8mb4_0900_as_cs, '
             'PRIMARY KEY (name))', 'CREATE UNIQUE INDEX t_cs ON t (name_cs)',
             "INSERT INTO t VALUES ('abc', 'abc')")
    db.check_err("INSERT INTO t VALUES ('ABC', 'xyz')", 1062)  # PK is case-insensitive
    db.check_ok("INSERT INTO t VALUES ('def', 'ABC')")        # unique cs index: 'ABC' differs from 'abc'
    db.check_err("INSERT INTO t VALUES ('ghi', 'abc')", 1062)
    db.check_ok("INSERT INTO t VALUES ('abc ', 'q')")          # NO PAD: 'abc ' is a different key


@case()
def test_pk_lookup_case_difference():
    # 10.8: primary-key equality lookups follow the (case-insensitive) collation of the key column
    db = DB()
    db.setup('CREATE TABLE t (user VARCHAR(20) PRIMARY KEY, v INT)', "INSERT INTO t VALUES ('Alice', 1)")
    db.check("SELECT v FROM t WHERE user = 'ALICE'", 1)
    db.check_affected("UPDATE t SET v = 2 WHERE user = 'alice'", 1)
    db.check_affected("INSERT INTO t VALUES ('aLiCe', 5) ON DUPLICATE KEY UPDATE v = v + 10", 2)
    db.check('SELECT user, v FROM t', [('Alice', 12)])


@case()
def test_join_on_ci_and_cs_columns():
    # 10.8.4 Collation Coercibility: column-vs-column comparison with different collations of the same charset:
    # the DELETE in front_end joins billing_projects.name = billing_project_users.billing_project (both ci)
    db = DB()
    db.setup('CREATE TABLE a (name VARCHAR(20) PRIMARY KEY)', 'CREATE TABLE b (id INT PRIMARY KEY, bp VARCHAR(20))',
             "INSERT INTO a VALUES ('Proj')", "INSERT INTO b VALUES (1, 'proj'), (2, 'PROJ'), (3, 'other')")
    db.check('SELECT COUNT(*) FROM a INNER JOIN b ON a.name = b.bp', 2)


@case()
def test_binary_and_collate_operators():
    # 12.11 BINARY operator / 10.8.1 COLLATE clause force a case-sensitive comparison
    db = DB()
    db.check("SELECT BINARY 'a' = 'A'", 0)
    db.check("SELECT 'a' COLLATE utf8mb4_bin = 'A'", 0)
    db.check("SELECT 'a' COLLATE utf8mb4_0900_as_cs = 'a'", 1)


@case()
def test_group_by_and_distinct_on_ci_strings():
    # 12.20.3 / 10.8: GROUP BY, DISTINCT and UNION compare strings with the column collation
    db = DB()
    db.setup('CREATE TABLE t (id INT PRIMARY KEY, s VARCHAR(10))', "INSERT INTO t VALUES (1, 'a'), (2, 'A'), (3, 'b')")
    db.check('SELECT COUNT(*) FROM (SELECT s FROM t GROUP BY s) x', 2)
    db.check('SELECT COUNT(*) FROM (SELECT DISTINCT s FROM t) x', 2)
    db.check('SELECT COUNT(DISTINCT s) FROM t', 2)
    db.check("SELECT COUNT(*) FROM (SELECT 'a' AS s UNION SELECT 'A') x", 1)


@case()
def test_group_by_and_distinct_on_cs_column():
    # 10.8: on a _cs column 'a' and 'A' are different groups
    db = DB()
    db.setup('CREATE TABLE t (id INT PRIMARY KEY, s VARCHAR(10) COLLATE utf8mb4_0900_as_cs)',
             "INSERT INTO t VALUES (1, 'a'), (2, 'A'), (3, 'a')")
    db.check('SELECT COUNT(*) FROM (SELECT s FROM t GROUP BY s) x', 2)
    db.check('SELECT COUNT(DISTINCT s) FROM t', 2)


@case()
def test_order_by_strings_case_insensitive():
    # 10.8: ORDER BY on a _ci column sorts case-insensitively
    db = DB()
    db.setup('CREATE TABLE t (id INT PRIMARY KEY, s VARCHAR(10))', "INSERT INTO t VALUES (1, 'B'), (2, 'a'), (3, 'C')")
    db.check('SELECT s FROM t ORDER BY s', [('a',), ('B',), ('C',)])
    db.check('SELECT MIN(s), MAX(s) FROM t', ('a', 'C'))


@case()
def test_enum_column():
    # 11.3.5 The ENUM Type: invalid value is an error in strict mode (1265 Data truncated); values are
    # case-insensitive on assignment and stored/returned in the declared lettercase
    db = DB()
    db.setup("CREATE TABLE t (id INT PRIMARY KEY, status ENUM('open', 'closed', 'deleted') NOT NULL DEFAULT 'open')")
    db.check_ok('INSERT INTO t (id) VALUES (1)')
    db.check('SELECT status FROM t WHERE id = 1', 'open')
    db.check_err("INSERT INTO t VALUES (2, 'bogus')", 1265)
    db.check_ok("INSERT INTO t VALUES (3, 'CLOSED')")
    db.check('SELECT status FROM t WHERE id = 3', 'closed')
    db.check("SELECT COUNT(*) FROM t WHERE status = 'Closed'", 1)
    db.check_err("UPDATE t SET status = 'nope' WHERE id = 1", 1265)


@case()
def test_enum_sorts_by_index():
    # 11.3.5: "ENUM values are sorted based on their index numbers" (declaration order), not alphabetically
    db = DB()
    db.setup("CREATE TABLE t (id INT PRIMARY KEY, st ENUM('running', 'complete') NOT NULL)",
             "INSERT INTO t VALUES (1, 'complete'), (2, 'running')")
    db.check('SELECT id FROM t ORDER BY st', [(2,), (1,)])


# =====================================================================================================
# 4. Aggregates, GROUP BY, HAVING, ORDER BY, LIMIT, DISTINCT
# =====================================================================================================

@case()
def test_aggregates_over_empty_set():
    # 12.20.1 Aggregate Function Descriptions: SUM/MAX/MIN/AVG of no rows is NULL, COUNT is 0; without GROUP BY
    # exactly one row is returned
    db = DB()
    db.setup('CREATE TABLE t (k INT, v INT)')
    db.check('SELECT SUM(v), COUNT(*), COUNT(v), MAX(v), MIN(v), AVG(v) FROM t', (None, 0, 0, None, None, None))
    db.check('SELECT COALESCE(SUM(v), 0) FROM t', 0, loose=True)
    db.check('SELECT COALESCE(SUM(1), 0) FROM t', 0, loose=True)


@case()
def test_group_by_over_empty_set_returns_no_rows():
    # 12.20.3: with GROUP BY there is one row per group, so an empty input gives zero rows
    # (cancel_job_group's INSERT ... SELECT ... GROUP BY then inserts nothing)
    db = DB()
    db.setup('CREATE TABLE t (k INT, v INT)')
    db.check('SELECT k, COALESCE(SUM(v), 0) FROM t GROUP BY k', [])
    db.check('SELECT COUNT(*) FROM t WHERE k = 1 GROUP BY k', [])


@case()
def test_aggregates_ignore_nulls():
    # 12.20.1: aggregate functions ignore NULL values; COUNT(*) counts rows
    db = DB()
    db.setup('CREATE TABLE t (v INT)', 'INSERT INTO t VALUES (1), (NULL), (3), (NULL)')
    db.check('SELECT COUNT(*), COUNT(v), SUM(v), MIN(v), MAX(v) FROM t', (4, 2, D('4'), 1, 3))
    db.check('SELECT AVG(v) FROM t', D('2'))
    db.check('SELECT SUM(v) FROM t WHERE v IS NULL', None)
    db.check('SELECT MAX(v) FROM t WHERE v IS NULL', None)


@case()
def test_count_distinct():
    # 12.20.1 COUNT(DISTINCT expr): distinct non-NULL values
    db = DB()
    db.setup('CREATE TABLE t (v INT)', 'INSERT INTO t VALUES (1), (1), (NULL), (2), (NULL)')
    db.check('SELECT COUNT(DISTINCT v) FROM t', 2)
    db.check('SELECT SUM(DISTINCT v) FROM t', D('3'))


@case()
def test_sum_types():
    # 12.20.1 SUM/AVG: DECIMAL for exact arguments, DOUBLE for approximate; COUNT is BIGINT
    db = DB()
    db.setup('CREATE TABLE t (i INT, f DOUBLE)', 'INSERT INTO t VALUES (1, 0.5), (2, 0.25)')
    db.check('SELECT SUM(i) FROM t', D('3'))
    db.check('SELECT SUM(f) FROM t', 0.75)
    db.check('SELECT AVG(i) FROM t', D('1.5'))
    db.check('SELECT COUNT(i) FROM t', 2)
    db.check('SELECT SUM(i) * 2 FROM t', D('6'))


@case()
def test_sum_of_boolean_expression():
    # 12.20.1 + 12.4.2: SUM(state = 'x') counts true rows, NULL comparisons are ignored
    # (commit_batch_update: SUM(state IN (...)), job_private: SUM(instances.state IS NOT NULL AND (...)))
    db = DB()
    db.setup('CREATE TABLE t (id INT PRIMARY KEY, state VARCHAR(20))',
             "INSERT INTO t VALUES (1, 'Ready'), (2, 'Running'), (3, NULL), (4, 'Success')")
    db.check("SELECT SUM(state = 'Ready') FROM t", D('1'))
    db.check("SELECT COALESCE(SUM(state IN ('Pending', 'Ready', 'Creating', 'Running')), 0) FROM t", D('2'))
    db.check("SELECT SUM(state IS NOT NULL AND (state = 'Ready' OR state = 'Running')) FROM t", D('2'))
    db.check("SELECT SUM(state = 'zzz') FROM t WHERE id = 3", None)


@case()
def test_aggregate_over_left_join_nulls():
    # 12.20.1 + 13.2.13.2 JOIN: COUNT(col) over NULL-extended rows is 0; SUM(NULL IS NOT NULL AND ...) is 0
    db = DB()
    db.setup('CREATE TABLE j (id INT PRIMARY KEY)', 'CREATE TABLE a (jid INT, inst VARCHAR(10))',
             'CREATE TABLE i (name VARCHAR(10) PRIMARY KEY, state VARCHAR(10))',
             'INSERT INTO j VALUES (1), (2)', "INSERT INTO a VALUES (2, 'w1'), (2, 'w2')",
             "INSERT INTO i VALUES ('w1', 'active'), ('w2', 'deleted')")
    db.check("SELECT j.id, COALESCE(SUM(i.state IS NOT NULL AND (i.state = 'pending' OR i.state = 'active')), 0) AS live, "
             "COUNT(a.jid) AS n FROM j LEFT JOIN a ON a.jid = j.id LEFT JOIN i ON a.inst = i.name "
             "GROUP BY j.id ORDER BY j.id", [(1, D('0'), 0), (2, D('1'), 2)])


@case()
def test_group_by_having_order_by_alias():
    # 13.2.13 SELECT: aliases may be used in GROUP BY, ORDER BY and HAVING
    db = DB()
    db.setup('CREATE TABLE t (k VARCHAR(5), v INT)', "INSERT INTO t VALUES ('a', 1), ('a', 2), ('b', 10), ('c', 0)")
    db.check('SELECT k, SUM(v) AS s FROM t GROUP BY k HAVING s > 0 ORDER BY s DESC', [('b', D('10')), ('a', D('3'))])
    db.check('SELECT k, COUNT(*) AS n FROM t GROUP BY k HAVING COUNT(*) > 1', [('a', 2)])
    db.check('SELECT k FROM t GROUP BY k HAVING SUM(v) = 0', [('c',)])


@case(uncertain=True)
def test_having_alias_shadows_column():
    # 13.2.13 SELECT says HAVING searches FROM columns before select aliases, yet production hail relies on
    # `SELECT user, CAST(COALESCE(SUM(n), 0) AS SIGNED) AS n ... GROUP BY user HAVING n > 0` meaning the alias
    # (with ONLY_FULL_GROUP_BY the bare column would be error 1055); the server's resolver prefers the select list.
    db = DB()
    db.setup('CREATE TABLE t (user VARCHAR(5), n INT)', "INSERT INTO t VALUES ('a', 1), ('a', -1), ('b', 0), ('b', 2)")
    db.check('SELECT user, CAST(COALESCE(SUM(n), 0) AS SIGNED) AS n FROM t GROUP BY user HAVING n > 0', [('b', 2)])


@case()
def test_order_by_alias_wins_over_column():
    # 13.2.13 SELECT: "MySQL resolves unqualified column or alias references in ORDER BY clauses by searching in
    # the select_expr values, then in the columns of the tables in the FROM clause"
    db = DB()
    db.setup('CREATE TABLE t (id INT PRIMARY KEY, v INT)', 'INSERT INTO t VALUES (1, 1), (2, 2), (3, 3)')
    db.check('SELECT id, -v AS v FROM t ORDER BY v', [(3, -3), (2, -2), (1, -1)])
    db.check('SELECT id, -v AS v FROM t ORDER BY t.v', [(1, -1), (2, -2), (3, -3)])


@case()
def test_group_by_alias_and_ordinal():
    # 12.20.3 MySQL Handling of GROUP BY: alias in GROUP BY is a MySQL extension; 13.2.13: positions allowed
    db = DB()
    db.setup('CREATE TABLE t (v INT)', 'INSERT INTO t VALUES (1), (2), (3), (4)')
    db.check('SELECT v MOD 2 AS p, COUNT(*) FROM t GROUP BY p ORDER BY p', [(0, 2), (1, 2)])
    db.check('SELECT v MOD 2, COUNT(*) FROM t GROUP BY 1 ORDER BY 1 DESC', [(1, 2), (0, 2)])


@case()
def test_group_by_null_key_and_distinct_null():
    # 12.20.3 / 13.2.13: NULLs form one group; DISTINCT treats NULLs as equal
    db = DB()
    db.setup('CREATE TABLE t (k INT, v INT)', 'INSERT INTO t VALUES (NULL, 1), (NULL, 2), (1, 3)')
    db.check('SELECT k, SUM(v) FROM t GROUP BY k ORDER BY k', [(None, D('3')), (1, D('3'))])
    db.check('SELECT DISTINCT k FROM t ORDER BY k', [(None,), (1,)])


@case()
def test_order_by_nulls_first_asc_last_desc():
    # 13.2.13 SELECT / B.3.4.3 Problems with NULL: "NULL values are presented first with ORDER BY ... ASC
    # and last with ORDER BY ... DESC"
    db = DB()
    db.setup('CREATE TABLE t (id INT PRIMARY KEY, v INT)', 'INSERT INTO t VALUES (1, 5), (2, NULL), (3, 1)')
    db.check('SELECT id FROM t ORDER BY v', [(2,), (3,), (1,)])
    db.check('SELECT id FROM t ORDER BY v DESC', [(1,), (3,), (2,)])
    # pool.py: ORDER BY ... -n_regions DESC  => ascending n_regions with NULLs last
    db.check('SELECT id FROM t ORDER BY -v DESC', [(3,), (1,), (2,)])


@case()
def test_order_by_multiple_keys_mixed_direction():
    # 13.2.13 SELECT ORDER BY col [ASC|DESC], ...
    db = DB()
    db.setup('CREATE TABLE t (a INT, b INT)', 'INSERT INTO t VALUES (1, 1), (1, 2), (2, 1), (2, 2)')
    db.check('SELECT a, b FROM t ORDER BY a DESC, b ASC', [(2, 1), (2, 2), (1, 1), (1, 2)])
    db.check('SELECT a, b FROM t ORDER BY 1, 2 DESC', [(1, 2), (1, 1), (2, 2), (2, 1)])


@case()
def test_limit_offset():
    # 13.2.13 SELECT: LIMIT row_count OFFSET offset; LIMIT offset, row_count; placeholders allowed
    db = DB()
    db.setup('CREATE TABLE t (id INT PRIMARY KEY)', 'INSERT INTO t VALUES (1), (2), (3), (4), (5)')
    db.check('SELECT id FROM t ORDER BY id LIMIT 2', [(1,), (2,)])
    db.check('SELECT id FROM t ORDER BY id LIMIT 2 OFFSET 3', [(4,), (5,)])
    db.check('SELECT id FROM t ORDER BY id LIMIT 1, 2', [(2,), (3,)])
    db.check('SELECT id FROM t ORDER BY id LIMIT 0', [])
    db.check('SELECT id FROM t ORDER BY id DESC LIMIT %s', [(5,)], params=(1,))
    db.check('SELECT id FROM t ORDER BY id LIMIT 10 OFFSET 4', [(5,)])


@case()
def test_distinct_rows():
    # 13.2.13 SELECT DISTINCT removes duplicate rows (all selected columns)
    db = DB()
    db.setup('CREATE TABLE t (a INT, b INT)', 'INSERT INTO t VALUES (1, 1), (1, 1), (1, 2)')
    db.check('SELECT DISTINCT a, b FROM t ORDER BY b', [(1, 1), (1, 2)])
    db.check('SELECT DISTINCT a FROM t', [(1,)])


@case()
def test_where_bare_boolean_column():
    # 13.2.13: `WHERE committed` / `AND batch_updates.committed` (truthiness of a TINYINT column)
    db = DB()
    db.setup('CREATE TABLE u (id INT PRIMARY KEY, committed BOOLEAN NOT NULL DEFAULT FALSE)',
             'INSERT INTO u VALUES (1, 0), (2, 1)')
    db.check('SELECT id FROM u WHERE committed', [(2,)])
    db.check('SELECT id FROM u WHERE NOT committed', [(1,)])
    db.check('SELECT id FROM u WHERE id > 0 AND committed', [(2,)])


@case()
def test_row_number_window_div():
    # 12.21.1 Window Function Descriptions ROW_NUMBER(); pool.py: ROW_NUMBER() OVER (ORDER BY ...) DIV share
    db = DB()
    db.setup('CREATE TABLE t (id INT PRIMARY KEY, r INT)', 'INSERT INTO t VALUES (1, 2), (2, NULL), (3, 1), (4, 1)')
    db.check('SELECT id, ROW_NUMBER() OVER (ORDER BY -r DESC, id ASC) AS rn FROM t ORDER BY rn',
             [(3, 1), (4, 2), (1, 3), (2, 4)])
    db.check('SELECT id, ROW_NUMBER() OVER (ORDER BY id) DIV 2 AS it FROM t ORDER BY id', [(1, 0), (2, 1), (3, 1), (4, 2)])


# =====================================================================================================
# 5. Joins, derived tables, subqueries, UNION
# =====================================================================================================

def _ab(db):
    db.setup('CREATE TABLE a (id INT PRIMARY KEY, x INT)', 'CREATE TABLE b (id INT PRIMARY KEY, aid INT, y INT)',
             'INSERT INTO a VALUES (1, 10), (2, 20), (3, NULL)',
             'INSERT INTO b VALUES (1, 1, 100), (2, 1, 101), (3, 3, 300), (4, NULL, 400)')


@case()
def test_inner_join():
    # 13.2.13.2 JOIN Clause: INNER JOIN keeps matching pairs only; NULL = NULL does not match
    db = DB()
    _ab(db)
    db.check('SELECT a.id, b.id FROM a INNER JOIN b ON b.aid = a.id ORDER BY a.id, b.id', [(1, 1), (1, 2), (3, 3)])
    db.check('SELECT COUNT(*) FROM a JOIN b ON a.x = b.aid', 0)


@case()
def test_left_join_null_extension():
    # 13.2.13.2: LEFT JOIN produces a row with all right-table columns NULL when there is no match
    db = DB()
    _ab(db)
    db.check('SELECT a.id, b.id, b.y FROM a LEFT JOIN b ON b.aid = a.id ORDER BY a.id, b.id',
             [(1, 1, 100), (1, 2, 101), (2, None, None), (3, 3, 300)])
    db.check('SELECT a.id FROM a LEFT JOIN b ON b.aid = a.id WHERE b.id IS NULL', [(2,)])


@case()
def test_left_join_on_vs_where():
    # 13.2.13.2: a condition in ON only restricts matching; in WHERE it filters NULL-extended rows away
    db = DB()
    _ab(db)
    db.check('SELECT a.id, b.id FROM a LEFT JOIN b ON b.aid = a.id AND b.y > 100 ORDER BY a.id',
             [(1, 2), (2, None), (3, 3)])
    db.check('SELECT a.id, b.id FROM a LEFT JOIN b ON b.aid = a.id WHERE b.y > 100 ORDER BY a.id', [(1, 2), (3, 3)])


@case()
def test_left_join_chain_propagates_nulls():
    # 13.2.13.2: a LEFT JOIN b LEFT JOIN c ON c.k = b.k: when b is NULL-extended c is too
    # (schedule_job: instances LEFT JOIN inst_colls; attempts_after_update: LEFT JOIN jobs LEFT JOIN ancestors)
    db = DB()
    _ab(db)
    db.setup('CREATE TABLE c (y INT PRIMARY KEY, z INT)', 'INSERT INTO c VALUES (100, 1), (300, 3)')
    db.check('SELECT a.id, b.id, c.z FROM a LEFT JOIN b ON b.aid = a.id LEFT JOIN c ON c.y = b.y ORDER BY a.id, b.id',
             [(1, 1, 1), (1, 2, None), (2, None, None), (3, 3, 3)])


@case()
def test_cross_and_comma_join():
    # 13.2.13.2: CROSS JOIN / JOIN without ON / comma produce the Cartesian product
    db = DB()
    _ab(db)
    db.check('SELECT COUNT(*) FROM a CROSS JOIN b', 12)
    db.check('SELECT COUNT(*) FROM a, b', 12)
    db.check('SELECT COUNT(*) FROM a, b WHERE a.id = b.aid', 3)
    db.check('SELECT COUNT(*) FROM a JOIN b', 12)


@case()
def test_join_errors_ambiguous_unknown():
    # B.3.1 Server Error Reference: 1052 ambiguous column, 1054 unknown column, 1146 no such table
    db = DB()
    _ab(db)
    db.check_err('SELECT id FROM a JOIN b ON a.id = b.aid', 1052)
    db.check_err('SELECT nope FROM a', 1054)
    db.check_err('SELECT 1 FROM missing', 1146)


@case()
def test_derived_table():
    # 13.2.15.8 Derived Tables
    db = DB()
    _ab(db)
    db.check('SELECT t.aid, t.s FROM (SELECT aid, SUM(y) AS s FROM b GROUP BY aid) AS t WHERE t.aid IS NOT NULL '
             'ORDER BY t.aid', [(1, D('201')), (3, D('300'))])
    db.check('SELECT a.id, t.n FROM a LEFT JOIN (SELECT aid, COUNT(*) AS n FROM b GROUP BY aid) AS t ON t.aid = a.id '
             'ORDER BY a.id', [(1, 2), (2, None), (3, 1)])
    db.check('SELECT p, q FROM (SELECT 1, 2) AS d (p, q)', (1, 2))


@case()
def test_left_join_lateral():
    # 13.2.15.9 Lateral Derived Tables: the derived table may refer to preceding tables; zero rows -> NULL extension,
    # N rows -> N output rows (the pre-121 is_job_cancelled returned one row per cancelled ancestor)
    db = DB()
    _ab(db)
    db.check('SELECT a.id, c.cancelled FROM a LEFT JOIN LATERAL (SELECT 1 AS cancelled FROM b WHERE b.aid = a.id) AS c '
             'ON TRUE ORDER BY a.id', [(1, 1), (1, 1), (2, None), (3, 1)])
    db.check('SELECT a.id, c.cancelled IS NOT NULL FROM a LEFT JOIN LATERAL (SELECT 1 AS cancelled FROM b '
             'WHERE b.aid = a.id LIMIT 1) AS c ON TRUE ORDER BY a.id', [(1, 1), (2, 0), (3, 1)])


@case()
def test_inner_join_lateral_with_group_by():
    # 13.2.15.9: INNER JOIN LATERAL with GROUP BY inside drops outer rows without groups (cancel_job_group);
    # an aggregate without GROUP BY always yields one row
    db = DB()
    _ab(db)
    db.check('SELECT a.id, t.s FROM a INNER JOIN LATERAL (SELECT aid, COALESCE(SUM(y), 0) AS s FROM b '
             'WHERE b.aid = a.id GROUP BY aid) AS t ON TRUE ORDER BY a.id', [(1, D('201')), (3, D('300'))])
    db.check('SELECT a.id, t.s FROM a INNER JOIN LATERAL (SELECT COALESCE(SUM(y), 0) AS s FROM b WHERE b.aid = a.id) '
             'AS t ON TRUE ORDER BY a.id', [(1, D('201')), (2, D('0')), (3, D('300'))], loose=True)


@case()
def test_coalesce_sum_zero_is_decimal():
    # 12.4.2 COALESCE + 12.20.1: the result type of COALESCE(SUM(int), 0) is DECIMAL whichever argument is returned,
    # so pymysql yields Decimal('0') for an empty set (the Python code therefore wraps it in CAST(... AS SIGNED))
    db = DB()
    db.setup('CREATE TABLE t (v INT, rate DOUBLE)')
    db.check('SELECT COALESCE(SUM(v), 0) FROM t', D('0'))
    db.check('SELECT IFNULL(SUM(v), 0) + 1 FROM t', D('1'))
    # front_end: COALESCE(SUM(`usage` * rate), 0) AS cost with rate DOUBLE -> DOUBLE 0.0
    db.check('SELECT COALESCE(SUM(v * rate), 0) FROM t', 0.0)


@case()
def test_scalar_subquery():
    # 13.2.15.1 The Subquery as Scalar Operand: empty -> NULL; 13.2.15.10 Subquery Errors: >1 row -> error 1242
    db = DB()
    _ab(db)
    db.check('SELECT (SELECT y FROM b WHERE b.id = 99)', None)
    db.check('SELECT (SELECT y FROM b WHERE b.id = 1)', 100)
    db.check_err('SELECT (SELECT y FROM b WHERE aid = 1)', 1242)
    db.check('SELECT a.id, (SELECT COUNT(*) FROM b WHERE b.aid = a.id) FROM a ORDER BY a.id', [(1, 2), (2, 0), (3, 1)])
    db.check('SELECT a.id FROM a WHERE (SELECT MAX(y) FROM b WHERE b.aid = a.id) > 200', [(3,)])
    db.check_err('SELECT (SELECT id, y FROM b WHERE id = 1)', 1241)


@case()
def test_exists():
    # 13.2.15.6 Subqueries with EXISTS or NOT EXISTS: TRUE iff the subquery returns any row (even of NULLs)
    db = DB()
    _ab(db)
    db.check('SELECT EXISTS (SELECT 1 FROM b WHERE aid = 2)', 0)
    db.check('SELECT EXISTS (SELECT NULL FROM b WHERE aid = 1)', 1)
    db.check('SELECT a.id FROM a WHERE NOT EXISTS (SELECT 1 FROM b WHERE b.aid = a.id)', [(2,)])
    db.check('SELECT EXISTS (SELECT 1 FROM b WHERE aid = 1 FOR UPDATE)', 1)


@case()
def test_in_subquery_with_nulls():
    # 13.2.15.3 Subqueries with ANY, IN, or SOME + 12.4.2: NOT IN over a set containing NULL is never TRUE;
    # IN over an empty set is FALSE even for a NULL operand
    db = DB()
    _ab(db)
    db.check('SELECT id FROM a WHERE id IN (SELECT aid FROM b) ORDER BY id', [(1,), (3,)])
    db.check('SELECT id FROM a WHERE id NOT IN (SELECT aid FROM b) ORDER BY id', [])
    db.check('SELECT id FROM a WHERE id NOT IN (SELECT aid FROM b WHERE aid IS NOT NULL) ORDER BY id', [(2,)])
    db.check('SELECT 2 IN (SELECT aid FROM b)', None)
    db.check('SELECT NULL IN (SELECT aid FROM b WHERE id > 100)', 0)
    db.check('SELECT NULL NOT IN (SELECT aid FROM b WHERE id > 100)', 1)
    db.check('SELECT 5 IN (SELECT aid FROM b WHERE id > 100)', 0)


@case()
def test_union_and_union_all():
    # 13.2.18 UNION Clause: UNION removes duplicates, UNION ALL keeps them; a later DISTINCT union overrides
    # earlier ALL; column names come from the first SELECT
    db = DB()
    db.check('SELECT 1 AS v UNION SELECT 1 UNION SELECT 2', [(1,), (2,)])
    db.check('SELECT 1 AS v UNION ALL SELECT 1 UNION ALL SELECT 2', [(1,), (1,), (2,)])
    db.check('SELECT 1 AS v UNION ALL SELECT 1 UNION SELECT 2', [(1,), (2,)])
    db.check('SELECT NULL AS v UNION SELECT NULL', [(None,)])
    r = db.check_ok('SELECT 1 AS first_name UNION SELECT 2 AS other')
    if r is not None and list(r.cols) != ['first_name']:
        note('UNION column names', "['first_name']", repr(list(r.cols)))


@case()
def test_union_order_limit_and_parenthesised_parts():
    # 13.2.18: ORDER BY / LIMIT after the last SELECT apply to the whole union; parenthesised SELECTs keep their
    # own ORDER BY ... LIMIT (pool.py builds (SELECT ... ORDER BY ... LIMIT n) UNION (SELECT ...))
    db = DB()
    db.setup('CREATE TABLE t (id INT PRIMARY KEY, g INT)', 'INSERT INTO t VALUES (1, 1), (2, 1), (3, 2), (4, 2)')
    db.check('SELECT id FROM t WHERE g = 1 UNION SELECT id FROM t WHERE g = 2 ORDER BY id DESC LIMIT 3', [(4,), (3,), (2,)])
    db.check('(SELECT id FROM t WHERE g = 1 ORDER BY id DESC LIMIT 1) UNION (SELECT id FROM t WHERE g = 2 ORDER BY id LIMIT 1) '
             'ORDER BY id', [(2,), (3,)])
    db.check('SELECT COUNT(*) FROM ((SELECT id FROM t WHERE g = 1 LIMIT 1) UNION (SELECT id FROM t WHERE g = 1)) AS u', 2)
    db.check_err('SELECT 1 UNION SELECT 1, 2', 1222)


@case()
def test_cte():
    # 13.2.20 WITH (Common Table Expressions)
    db = DB()
    _ab(db)
    db.check('WITH s AS (SELECT aid, COUNT(*) AS n FROM b GROUP BY aid) SELECT a.id, s.n FROM a INNER JOIN s ON s.aid = a.id '
             'ORDER BY a.id', [(1, 2), (3, 1)])


@case()
def test_locking_clauses_accepted():
    # 13.2.13 SELECT / 15.7.2.4 Locking Reads: FOR UPDATE, FOR SHARE, LOCK IN SHARE MODE, NOWAIT, SKIP LOCKED
    db = DB()
    _ab(db)
    for tail in ('FOR UPDATE', 'LOCK IN SHARE MODE', 'FOR SHARE', 'FOR UPDATE SKIP LOCKED', 'FOR UPDATE NOWAIT',
                 'FOR SHARE OF a'):
        db.check(f'SELECT x FROM a WHERE id = 1 {tail}', 10)
    db.check('SELECT t.s FROM (SELECT SUM(y) AS s FROM b WHERE aid = 1 FOR UPDATE) AS t', D('201'))
    db.setup('SELECT x INTO @lx FROM a WHERE id = 2 FOR UPDATE')
    db.check('SELECT @lx', 20)


# =====================================================================================================
# 6. INSERT / UPDATE / DELETE, affected rows, ROW_COUNT(), LAST_INSERT_ID()
# =====================================================================================================

@case()
def test_multirow_insert_auto_increment_last_insert_id():
    # 12.16 Information Functions LAST_INSERT_ID(): "If you insert multiple rows using a single INSERT statement,
    # LAST_INSERT_ID() returns the value generated for the first inserted row only"; the client's insert id
    # (pymysql lastrowid) is the same value
    db = DB()
    db.setup('CREATE TABLE t (id BIGINT NOT NULL AUTO_INCREMENT, v INT, PRIMARY KEY (id))')
    r = db.check_affected('INSERT INTO t (v) VALUES (10)', 1)
    if r is not None and r.lastrowid != 1:
        note('lastrowid after first insert', '1', repr(r.lastrowid))
    r = db.check_affected('INSERT INTO t (v) VALUES (20), (30), (40)', 3)
    if r is not None and r.lastrowid != 2:
        note('lastrowid after multi-row insert', '2', repr(r.lastrowid))
    db.check('SELECT LAST_INSERT_ID()', 2)
    db.check('SELECT id FROM t ORDER BY id', [(1,), (2,), (3,), (4,)])


@case()
def test_auto_increment_explicit_values():
    # 3.6.9 Using AUTO_INCREMENT: explicit value is used and moves the counter; NULL or 0 generates a value;
    # 12.16: LAST_INSERT_ID() is not changed by an insert that supplies the value explicitly
    db = DB()
    db.setup('CREATE TABLE t (id INT NOT NULL AUTO_INCREMENT PRIMARY KEY, v INT)', 'INSERT INTO t (v) VALUES (1)')
    db.check_ok('INSERT INTO t (id, v) VALUES (10, 2)')
    db.check('SELECT LAST_INSERT_ID()', 1)
    db.check_ok('INSERT INTO t (id, v) VALUES (NULL, 3)')
    db.check('SELECT LAST_INSERT_ID()', 11)
    db.check_ok('INSERT INTO t (id, v) VALUES (0, 4)')
    db.check('SELECT id FROM t ORDER BY id', [(1,), (10,), (11,), (12,)])


@case()
def test_last_insert_id_is_per_session():
    # 12.16: the value is maintained per connection
    db = DB()
    db.setup('CREATE TABLE t (id INT NOT NULL AUTO_INCREMENT PRIMARY KEY, v INT)', 'INSERT INTO t (v) VALUES (1), (2)')
    s2 = db.session()
    db.check('SELECT LAST_INSERT_ID()', 0, sess=s2)
    db.check('SELECT LAST_INSERT_ID()', 1)


@case()
def test_odku_affected_rows():
    # 13.2.7.2 INSERT ... ON DUPLICATE KEY UPDATE: "the affected-rows value per row is 1 if the row is inserted as
    # a new row, 2 if an existing row is updated, and 0 if an existing row is set to its current values"
    # (without CLIENT_FOUND_ROWS; gear/database.py does not set it)
    db = DB()
    db.setup('CREATE TABLE t (k INT PRIMARY KEY, n INT NOT NULL)')
    db.check_affected('INSERT INTO t VALUES (1, 5) ON DUPLICATE KEY UPDATE n = n + 1', 1)
    db.check_affected('INSERT INTO t VALUES (1, 5) ON DUPLICATE KEY UPDATE n = n + 1', 2)
    db.check_affected('INSERT INTO t VALUES (1, 5) ON DUPLICATE KEY UPDATE n = n', 0)
    db.check_affected('INSERT INTO t VALUES (1, 5) ON DUPLICATE KEY UPDATE k = k', 0)
    db.check('SELECT n FROM t', 6)
    db.check_affected('INSERT INTO t VALUES (2, 1), (2, 1), (1, 0) ON DUPLICATE KEY UPDATE n = n + 10', 5)
    db.check('SELECT k, n FROM t ORDER BY k', [(1, 16), (2, 11)])


@case()
def test_row_count_after_odku():
    # 12.16 ROW_COUNT(): same as the affected-rows count; add_attempt tests `ROW_COUNT() = 1` after
    # INSERT ... ON DUPLICATE KEY UPDATE batch_id = batch_id
    db = DB()
    db.setup('CREATE TABLE t (k INT PRIMARY KEY, n INT NOT NULL)')
    db.setup('INSERT INTO t VALUES (1, 5) ON DUPLICATE KEY UPDATE k = k')
    db.check('SELECT ROW_COUNT()', 1)
    db.setup('INSERT INTO t VALUES (1, 5) ON DUPLICATE KEY UPDATE k = k')
    db.check('SELECT ROW_COUNT()', 0)
    db.setup('INSERT INTO t VALUES (1, 5) ON DUPLICATE KEY UPDATE n = 9')
    db.check('SELECT ROW_COUNT()', 2)


@case()
def test_odku_values_function_and_row_alias():
    # 13.2.7.2: VALUES(col) refers to the value that would have been inserted; since 8.0.19 a row alias
    # (INSERT ... VALUES (...) AS new) can be used instead
    db = DB()
    db.setup('CREATE TABLE t (k INT PRIMARY KEY, n INT NOT NULL, s VARCHAR(10))', "INSERT INTO t VALUES (1, 5, 'old')")
    db.check_affected("INSERT INTO t VALUES (1, 7, 'new') ON DUPLICATE KEY UPDATE n = n + VALUES(n), s = VALUES(s)", 2)
    db.check('SELECT n, s FROM t', (12, 'new'))
    db.check_affected("INSERT INTO t VALUES (1, 3, 'x') AS new ON DUPLICATE KEY UPDATE n = t.n + new.n", 2)
    db.check('SELECT n, s FROM t', (15, 'new'))
    # billing_manager.py: sku = IFNULL(sku, VALUES(sku))
    db.setup("INSERT INTO t VALUES (2, 0, NULL)")
    db.check_affected("INSERT INTO t VALUES (2, 0, 'sku1') ON DUPLICATE KEY UPDATE s = IFNULL(s, VALUES(s))", 2)
    db.check_affected("INSERT INTO t VALUES (2, 0, 'sku2') ON DUPLICATE KEY UPDATE s = IFNULL(s, VALUES(s))", 0)
    db.check('SELECT s FROM t WHERE k = 2', 'sku1')


@case(uncertain=True)
def test_odku_assignments_left_to_right():
    # 13.2.7.2 does not say it, but ODKU assignments are executed like UPDATE's (13.2.17: left to right)
    db = DB()
    db.setup('CREATE TABLE t (k INT PRIMARY KEY, a INT, b INT)', 'INSERT INTO t VALUES (1, 1, 0)')
    db.setup('INSERT INTO t VALUES (1, 0, 0) ON DUPLICATE KEY UPDATE a = a + 1, b = a')
    db.check('SELECT a, b FROM t', (2, 2))


@case()
def test_odku_on_secondary_unique_key():
    # 13.2.7.2: a duplicate in ANY unique index triggers the update of that row
    db = DB()
    db.setup('CREATE TABLE t (id INT PRIMARY KEY, u VARCHAR(10), n INT, UNIQUE KEY (u))', "INSERT INTO t VALUES (1, 'x', 0)")
    db.check_affected("INSERT INTO t VALUES (2, 'x', 0) ON DUPLICATE KEY UPDATE n = n + 1", 2)
    db.check('SELECT id, n FROM t', [(1, 1)])


@case()
def test_insert_select():
    # 13.2.7.1 INSERT ... SELECT
    db = DB()
    db.setup('CREATE TABLE s (id INT PRIMARY KEY, q INT)', 'CREATE TABLE t (id INT PRIMARY KEY, q INT)',
             'INSERT INTO s VALUES (1, 10), (2, 20), (3, 30)')
    db.check_affected('INSERT INTO t (id, q) SELECT id, q * 2 FROM s WHERE id > 1', 2)
    db.check('SELECT id, q FROM t ORDER BY id', [(2, 40), (3, 60)])
    db.check_affected('INSERT INTO t SELECT id + 10, q FROM t', 2)  # selecting from the target table is allowed
    db.check('SELECT COUNT(*) FROM t', 4)
    db.check_affected('INSERT INTO t (id, q) SELECT id, q FROM s WHERE id > 100', 0)


@case()
def test_insert_select_odku_refers_to_select_columns():
    # 13.2.7.2: in INSERT ... SELECT ... ON DUPLICATE KEY UPDATE the update expressions may reference columns of
    # the SELECT's tables when the SELECT has no GROUP BY/DISTINCT/UNION
    # (attempts_after_update: `usage` = agg.`usage` + msec_diff_rollup * quantity)
    db = DB()
    db.setup('CREATE TABLE src (rid INT PRIMARY KEY, quantity BIGINT)', 'CREATE TABLE agg (rid INT PRIMARY KEY, `usage` BIGINT NOT NULL)',
             'INSERT INTO src VALUES (1, 3), (2, 5)', 'INSERT INTO agg VALUES (1, 100)')
    db.check_affected('INSERT INTO agg (rid, `usage`) SELECT rid, 10 * quantity FROM src FOR UPDATE '
                      'ON DUPLICATE KEY UPDATE `usage` = agg.`usage` + 10 * quantity', 3)
    db.check('SELECT rid, `usage` FROM agg ORDER BY rid', [(1, 130), (2, 50)])


@case()
def test_insert_grouped_select_odku_column_is_target():
    # 13.2.7.2: with GROUP BY the select's columns are not visible, so an unqualified name that exists in both
    # tables means the target row (commit_batch_update: n_ready_jobs = n_ready_jobs + @n_ready_jobs)
    db = DB()
    db.setup('CREATE TABLE st (u VARCHAR(5), tok INT, n INT)', 'CREATE TABLE res (u VARCHAR(5) PRIMARY KEY, n INT NOT NULL)',
             "INSERT INTO st VALUES ('a', 0, 1), ('a', 1, 2)", "INSERT INTO res VALUES ('a', 100)")
    db.check_affected('INSERT INTO res (u, n) SELECT u, CAST(COALESCE(SUM(n), 0) AS SIGNED) FROM st GROUP BY u '
                      'ON DUPLICATE KEY UPDATE n = n + 5', 2)
    db.check('SELECT n FROM res', 105)


@case(uncertain=True)
def test_insert_select_odku_ambiguous_column():
    # 13.2.7.2: for an ungrouped SELECT an unqualified name present in both target and source is ambiguous
    # (error 1052) -- from memory of server behaviour, the manual only says such references are "permitted"
    db = DB()
    db.setup('CREATE TABLE s (id INT PRIMARY KEY, n INT)', 'CREATE TABLE t (id INT PRIMARY KEY, n INT)',
             'INSERT INTO s VALUES (1, 1)', 'INSERT INTO t VALUES (1, 1)')
    db.check_err('INSERT INTO t (id, n) SELECT id, n FROM s ON DUPLICATE KEY UPDATE n = n + 1', 1052)


@case()
def test_insert_ignore():
    # 13.2.7 INSERT: IGNORE turns duplicate-key (and FK) errors into warnings; the row is skipped
    db = DB()
    db.setup('CREATE TABLE p (id INT PRIMARY KEY)', 'CREATE TABLE t (id INT PRIMARY KEY, pid INT, FOREIGN KEY (pid) REFERENCES p(id))',
             'INSERT INTO p VALUES (1)', 'INSERT INTO t VALUES (1, 1)')
    db.check_affected('INSERT IGNORE INTO t VALUES (1, 1)', 0)
    db.check_affected('INSERT IGNORE INTO t VALUES (1, 1), (2, 1)', 1)
    db.check_affected('INSERT IGNORE INTO t VALUES (3, 99)', 0)
    db.check('SELECT COUNT(*) FROM t', 2)


@case(optional=True)
def test_replace():
    # 13.2.12 REPLACE: delete + insert; affected rows 2 when a row was replaced (not used by the batch SQL)
    db = DB()
    db.setup('CREATE TABLE t (k INT PRIMARY KEY, v INT)', 'INSERT INTO t VALUES (1, 1)')
    db.check_affected('REPLACE INTO t VALUES (1, 2)', 2)
    db.check_affected('REPLACE INTO t VALUES (2, 2)', 1)
    db.check('SELECT v FROM t WHERE k = 1', 2)


@case()
def test_insert_set_syntax_and_defaults():
    # 13.2.7 INSERT ... SET; 11.6 Data Type Default Values; DEFAULT keyword
    db = DB()
    db.setup("CREATE TABLE t (id INT PRIMARY KEY, a INT NOT NULL DEFAULT 7, b VARCHAR(5) DEFAULT 'x', c INT)")
    db.setup('INSERT INTO t SET id = 1, c = 3', 'INSERT INTO t (id, a, b) VALUES (2, DEFAULT, DEFAULT)', 'INSERT INTO t (id) VALUES (3)')
    db.check('SELECT id, a, b, c FROM t ORDER BY id', [(1, 7, 'x', 3), (2, 7, 'x', None), (3, 7, 'x', None)])


@case()
def test_insert_errors_strict_mode():
    # 5.1.11 Server SQL Modes (strict): 1364 no default, 1048 explicit NULL, 1136 column count, 1406 too long,
    # 1054 unknown column
    db = DB()
    db.setup('CREATE TABLE t (id INT PRIMARY KEY, a INT NOT NULL, s VARCHAR(3))')
    db.check_err('INSERT INTO t (id) VALUES (1)', 1364)
    db.check_err('INSERT INTO t (id, a) VALUES (1, NULL)', 1048)
    db.check_err('INSERT INTO t (id, a) VALUES (1)', 1136)
    db.check_err("INSERT INTO t (id, a, s) VALUES (1, 1, 'abcd')", 1406)
    db.check_err('INSERT INTO t (id, zz) VALUES (1, 1)', 1054)
    db.check('SELECT COUNT(*) FROM t', 0)


@case()
def test_integer_column_conversions():
    # 12.25.4 Rounding Behavior: inserting an exact fraction into an integer column rounds half away from zero;
    # 12.3: numeric strings are converted
    db = DB()
    db.setup('CREATE TABLE t (id INT PRIMARY KEY, n INT)')
    db.setup("INSERT INTO t VALUES (1, 2.5), (2, 7 / 2), (3, '5'), (4, -2.5), (5, TRUE)")
    db.check('SELECT n FROM t ORDER BY id', [(3,), (4,), (5,), (-3,), (1,)])


@case()
def test_integer_column_out_of_range():
    # 11.1.7 Out-of-Range and Overflow Handling: strict mode rejects out-of-range values with error 1264
    db = DB()
    db.setup('CREATE TABLE t (id INT PRIMARY KEY, n INT, b TINYINT)')
    db.check_err('INSERT INTO t VALUES (1, 2147483648, 0)', 1264)
    db.check_err('INSERT INTO t VALUES (2, 0, 128)', 1264)
    db.check_ok('INSERT INTO t VALUES (3, 2147483647, 127)')


@case()
def test_invalid_integer_string_strict():
    # 5.1.11 strict mode: a non-numeric string for an integer column is error 1366 (Incorrect integer value)
    db = DB()
    db.setup('CREATE TABLE t (id INT PRIMARY KEY, n INT)')
    db.check_err("INSERT INTO t VALUES (1, 'abc')", 1366)


@case()
def test_update_affected_rows_counts_changed_only():
    # 13.2.17 UPDATE: "If you set a column to the value it currently has, MySQL notices this and does not update
    # it"; affected rows = rows actually changed (no CLIENT_FOUND_ROWS)
    db = DB()
    db.setup('CREATE TABLE t (id INT PRIMARY KEY, v INT)', 'INSERT INTO t VALUES (1, 1), (2, 2), (3, 3)')
    db.check_affected('UPDATE t SET v = 2 WHERE id IN (1, 2)', 1)
    db.check('SELECT ROW_COUNT()', 1)
    db.check_affected('UPDATE t SET v = v', 0)
    db.check('SELECT ROW_COUNT()', 0)
    db.check_affected('UPDATE t SET v = v + 1 WHERE id > 100', 0)
    db.check_affected("UPDATE t SET v = '2' WHERE id = 2", 0)


@case()
def test_update_assignments_left_to_right():
    # 13.2.17 UPDATE: "Single-table UPDATE assignments are generally evaluated from left to right": col2 = col1
    # sees the already-updated col1 (MySQL-specific)
    db = DB()
    db.setup('CREATE TABLE t (id INT PRIMARY KEY, a INT, b INT)', 'INSERT INTO t VALUES (1, 1, 0)')
    db.setup('UPDATE t SET a = a + 1, b = a')
    db.check('SELECT a, b FROM t', (2, 2))
    db.setup('UPDATE t SET b = a + 10, a = 0')
    db.check('SELECT a, b FROM t', (0, 12))


@case()
def test_update_order_by_limit():
    # 13.2.17 UPDATE ... ORDER BY ... LIMIT
    db = DB()
    db.setup('CREATE TABLE t (id INT PRIMARY KEY, v INT)', 'INSERT INTO t VALUES (1, 0), (2, 0), (3, 0)')
    db.check_affected('UPDATE t SET v = 1 ORDER BY id DESC LIMIT 2', 2)
    db.check('SELECT id FROM t WHERE v = 1 ORDER BY id', [(2,), (3,)])


@case()
def test_update_key_shift_needs_order_by():
    # 13.2.17 UPDATE: `UPDATE t SET id = id + 1` fails with a duplicate-key error when rows are processed in
    # ascending order; ORDER BY id DESC avoids it.  InnoDB rolls the failed statement back completely.
    db = DB()
    db.setup('CREATE TABLE t (id INT PRIMARY KEY)', 'INSERT INTO t VALUES (1), (2), (3)')
    db.check_err('UPDATE t SET id = id + 1', 1062)
    db.check('SELECT id FROM t ORDER BY id', [(1,), (2,), (3,)])
    db.check_affected('UPDATE t SET id = id + 1 ORDER BY id DESC', 3)
    db.check('SELECT id FROM t ORDER BY id', [(2,), (3,), (4,)])


@case()
def test_multi_table_update_inner_join():
    # 13.2.17 UPDATE (multiple-table syntax): rows matching the join are updated; each matching row is updated
    # once even if it matches several times; affected rows counts changed rows of all tables
    db = DB()
    db.setup('CREATE TABLE a (id INT PRIMARY KEY, n INT)', 'CREATE TABLE b (id INT PRIMARY KEY, aid INT, d INT)',
             'INSERT INTO a VALUES (1, 0), (2, 0), (3, 0)', 'INSERT INTO b VALUES (1, 1, 5), (2, 1, 5), (3, 2, 7)')
    db.check_affected('UPDATE a INNER JOIN b ON b.aid = a.id SET a.n = a.n + 1', 2)
    db.check('SELECT id, n FROM a ORDER BY id', [(1, 1), (2, 1), (3, 0)])
    db.check_affected('UPDATE a INNER JOIN b ON b.aid = a.id SET a.n = b.d, b.d = 0 WHERE a.id = 2', 2)
    db.check('SELECT n FROM a WHERE id = 2', 7)
    db.check('SELECT d FROM b WHERE id = 3', 0)


@case()
def test_multi_table_update_comma_and_derived():
    # 13.2.17: `UPDATE t1, t2 SET ... WHERE` (deactivate_instance) and joins against a derived table
    # (mark_job_complete / commit_batch_update); unqualified SET columns resolve when unambiguous
    db = DB()
    db.setup('CREATE TABLE i (name VARCHAR(10) PRIMARY KEY, state VARCHAR(10), cores INT)',
             'CREATE TABLE f (name VARCHAR(10) PRIMARY KEY, free INT)',
             "INSERT INTO i VALUES ('w1', 'active', 8), ('w2', 'active', 4)", "INSERT INTO f VALUES ('w1', 1), ('w2', 2)")
    db.check_affected("UPDATE i, f SET state = 'inactive', free = cores WHERE i.name = 'w1' AND i.name = f.name", 2)
    db.check("SELECT i.state, f.free FROM i JOIN f ON i.name = f.name ORDER BY i.name", [('inactive', 8), ('active', 2)])
    db.setup('CREATE TABLE g (id INT PRIMARY KEY, n INT NOT NULL, nf INT NOT NULL, ns INT NOT NULL)',
             'CREATE TABLE anc (gid INT, ancestor INT)',
             'INSERT INTO g VALUES (0, 0, 0, 0), (1, 0, 0, 0), (2, 0, 0, 0)', 'INSERT INTO anc VALUES (2, 2), (2, 0)')
    db.check_affected("UPDATE g INNER JOIN (SELECT ancestor FROM anc WHERE gid = 2 ORDER BY ancestor ASC) AS t "
                      "ON g.id = t.ancestor SET n = n + 1, nf = nf + ('Failed' = 'Error' OR 'Failed' = 'Failed'), "
                      "g.ns = g.ns + ('Failed' != 'Cancelled' AND 'Failed' != 'Error' AND 'Failed' != 'Failed')", 2)
    db.check('SELECT id, n, nf, ns FROM g ORDER BY id', [(0, 1, 1, 0), (1, 0, 0, 0), (2, 1, 1, 0)])


@case()
def test_multi_table_update_left_join_null_side():
    # 13.2.17: with LEFT JOIN, assignments to the NULL-extended table are skipped for unmatched rows
    # (UPDATE jobs LEFT JOIN jobs_telemetry ... SET jobs_telemetry.time_ready = ...)
    db = DB()
    db.setup('CREATE TABLE j (id INT PRIMARY KEY, st VARCHAR(10))', 'CREATE TABLE tl (id INT PRIMARY KEY, ready BIGINT)',
             "INSERT INTO j VALUES (1, 'Pending'), (2, 'Pending')", 'INSERT INTO tl VALUES (2, NULL)')
    db.check_affected("UPDATE j LEFT JOIN tl ON tl.id = j.id SET j.st = 'Ready', tl.ready = 123", 3)
    db.check('SELECT COUNT(*) FROM tl', 1)
    db.check('SELECT ready FROM tl', 123)
    db.check("SELECT COUNT(*) FROM j WHERE st = 'Ready'", 2)


@case()
def test_multi_table_update_if_uses_old_value_when_assigned_before():
    # 13.2.17 + mark_job_complete: SET jobs.state = IF(jobs.n_pending_parents = 1, 'Ready', 'Pending'),
    # jobs.n_pending_parents = jobs.n_pending_parents - 1 -- state is assigned BEFORE the decrement, so it sees
    # the old value under either evaluation order
    db = DB()
    db.setup('CREATE TABLE j (id INT PRIMARY KEY, st VARCHAR(10), npp INT)', 'CREATE TABLE p (jid INT, pid INT)',
             "INSERT INTO j VALUES (1, 'Pending', 1), (2, 'Pending', 2)", 'INSERT INTO p VALUES (1, 9), (2, 9)')
    db.setup("UPDATE j INNER JOIN p ON p.jid = j.id SET j.st = IF(j.npp = 1, 'Ready', 'Pending'), j.npp = j.npp - 1 WHERE p.pid = 9")
    db.check('SELECT id, st, npp FROM j ORDER BY id', [(1, 'Ready', 0), (2, 'Pending', 1)])


@case(uncertain=True)
def test_multi_table_update_same_table_left_to_right():
    # 13.2.17: "For multiple-table updates, there is no guarantee that assignments are carried out in any
    # particular order."  In practice the server fills the fields of one table in order on the same record buffer,
    # so a later assignment of the SAME table sees the earlier one.
    db = DB()
    db.setup('CREATE TABLE a (id INT PRIMARY KEY, x INT, y INT)', 'CREATE TABLE b (id INT PRIMARY KEY)',
             'INSERT INTO a VALUES (1, 1, 0)', 'INSERT INTO b VALUES (1)')
    db.setup('UPDATE a INNER JOIN b ON b.id = a.id SET a.x = a.x + 1, a.y = a.x')
    db.check('SELECT x, y FROM a', (2, 2))


@case(uncertain=True)
def test_multi_table_update_cross_table_sees_old_value():
    # 13.2.17: no guaranteed order.  mark_job_complete sets jobs_telemetry.time_ready = IF(jobs.n_pending_parents
    # = 1, ...) AFTER jobs.n_pending_parents was decremented in the same SET list; whether the other table's
    # expression sees the old or new value depends on the join order chosen (on-the-fly vs deferred update).
    # Expected here: old value (deferred evaluation) -- genuinely unspecified.
    db = DB()
    db.setup('CREATE TABLE a (id INT PRIMARY KEY, x INT)', 'CREATE TABLE b (id INT PRIMARY KEY, y INT)',
             'INSERT INTO a VALUES (1, 1)', 'INSERT INTO b VALUES (1, 0)')
    db.setup('UPDATE a INNER JOIN b ON b.id = a.id SET a.x = a.x - 1, b.y = IF(a.x = 1, 100, -100)')
    db.check('SELECT y FROM b', 100)


@case()
def test_delete_variants():
    # 13.2.2 DELETE: affected rows; ORDER BY ... LIMIT; multi-table `DELETE t1 FROM t1 LEFT JOIN t2 ... WHERE`
    # (front_end removes billing_project_users that way)
    db = DB()
    db.setup('CREATE TABLE t (id INT PRIMARY KEY, g INT)', 'INSERT INTO t VALUES (1, 1), (2, 1), (3, 2), (4, 2), (5, 3)')
    db.check_affected('DELETE FROM t WHERE g = 1', 2)
    db.check('SELECT ROW_COUNT()', 2)
    db.check_affected('DELETE FROM t ORDER BY id DESC LIMIT 1', 1)
    db.check('SELECT id FROM t ORDER BY id', [(3,), (4,)])
    db.setup('CREATE TABLE u (g INT PRIMARY KEY, name_cs VARCHAR(10) COLLATE utf8mb4_0900_as_cs)', "INSERT INTO u VALUES (2, 'Abc')")
    db.check_affected("DELETE t FROM t LEFT JOIN u ON u.g = t.g WHERE u.name_cs = 'abc'", 0)
    db.check_affected("DELETE t FROM t LEFT JOIN u ON u.g = t.g WHERE u.name_cs = 'Abc' AND t.id = 3", 1)
    db.check_affected('DELETE FROM t WHERE id = 999', 0)
    db.check('SELECT id FROM t', [(4,)])


@case()
def test_row_count_after_statement_kinds():
    # 12.16 ROW_COUNT(): DML -> affected rows; SELECT (result set) -> -1; SET -> 0
    db = DB()
    db.setup('CREATE TABLE t (id INT PRIMARY KEY, v INT)')
    db.setup('INSERT INTO t VALUES (1, 1), (2, 2)')
    db.check('SELECT ROW_COUNT()', 2)
    db.setup('SELECT * FROM t')
    db.check('SELECT ROW_COUNT()', -1)
    db.setup('DELETE FROM t')
    db.check('SELECT ROW_COUNT()', 2)


@case(uncertain=True)
def test_row_count_after_set_is_zero():
    # 12.16 ROW_COUNT(): not listed explicitly; SET returns an OK packet with 0 affected rows, so ROW_COUNT() is 0
    db = DB()
    db.setup('CREATE TABLE t (id INT PRIMARY KEY)', 'INSERT INTO t VALUES (1), (2)', 'SET @x = 1')
    db.check('SELECT ROW_COUNT()', 0)


@case()
def test_row_count_in_procedure_after_odku_like_add_attempt():
    # 12.16 + 13.2.7.2: add_attempt does INSERT ... ON DUPLICATE KEY UPDATE batch_id = batch_id; IF ROW_COUNT() = 1
    # to find out whether the attempt is new
    db = DB()
    db.setup('CREATE TABLE att (batch_id BIGINT, job_id INT, attempt_id VARCHAR(40), PRIMARY KEY (batch_id, job_id, attempt_id))',
             """CREATE PROCEDURE add_att(IN b BIGINT, IN j INT, IN a VARCHAR(40), IN cores INT, OUT delta INT)
BEGIN
  DECLARE dummy_lock INT;
  SET delta = IFNULL(delta, 0);
  IF a IS NOT NULL THEN
    SELECT 1 INTO dummy_lock FROM att WHERE batch_id = -1 FOR UPDATE;
    INSERT INTO att (batch_id, job_id, attempt_id) VALUES (b, j, a) ON DUPLICATE KEY UPDATE batch_id = batch_id;
    IF ROW_COUNT() = 1 THEN SET delta = -1 * cores; END IF;
  END IF;
END""", """CREATE PROCEDURE caller(IN a VARCHAR(40))
BEGIN
  DECLARE d INT DEFAULT 0;
  CALL add_att(1, 1, a, 1000, d);
  SELECT d;
END""")
    db.check("CALL caller('x')", -1000)
    db.check("CALL caller('x')", 0)
    db.check("CALL caller('X')", 0)      # attempt_id is case-insensitive in the key
    db.check('CALL caller(NULL)', 0)
    db.check('SELECT COUNT(*) FROM att', 1)


@case()
def test_insert_grouped_select_for_update_odku_syntax():
    # 13.2.7.1: the SELECT part may carry a locking clause before ON DUPLICATE KEY UPDATE (cancel_job_group:
    # ... GROUP BY user, inst_coll FOR UPDATE ON DUPLICATE KEY UPDATE ...); an empty grouped select inserts nothing
    db = DB()
    db.setup('CREATE TABLE src (u VARCHAR(5), x INT)', 'CREATE TABLE res (u VARCHAR(5) PRIMARY KEY, n INT NOT NULL)')
    db.check_affected('INSERT INTO res (u, n) SELECT u, COALESCE(SUM(x), 0) FROM src GROUP BY u FOR UPDATE '
                      'ON DUPLICATE KEY UPDATE n = n + 1', 0)
    db.setup("INSERT INTO src VALUES ('a', 2), ('a', 3)")
    db.check_affected('INSERT INTO res (u, n) SELECT u, COALESCE(SUM(x), 0) FROM src GROUP BY u FOR UPDATE '
                      'ON DUPLICATE KEY UPDATE n = n + 1', 1)
    db.check('SELECT n FROM res', 5)


@case()
def test_timestamp_default_and_on_update():
    # 11.2.5 Automatic Initialization and Updating for TIMESTAMP and DATETIME (latest_product_versions.time_updated):
    # ON UPDATE CURRENT_TIMESTAMP sets the column when any other column changes value
    db = DB()
    clock = [CLOCK]
    db.eng._clock = lambda: clock[0]
    db.setup('CREATE TABLE t (k INT PRIMARY KEY, v INT, tu TIMESTAMP DEFAULT CURRENT_TIMESTAMP ON UPDATE CURRENT_TIMESTAMP)',
             'INSERT INTO t (k, v) VALUES (1, 1)')
    db.check('SELECT tu FROM t', datetime.datetime(2023, 11, 14, 22, 13, 20))
    clock[0] = CLOCK + 60
    db.setup('UPDATE t SET v = 1')  # unchanged: timestamp stays
    db.check('SELECT tu FROM t', datetime.datetime(2023, 11, 14, 22, 13, 20))
    db.setup('UPDATE t SET v = 2')
    db.check('SELECT tu FROM t', datetime.datetime(2023, 11, 14, 22, 14, 20))


# =====================================================================================================
# 7. Constraints: unique, NOT NULL, foreign keys
# =====================================================================================================

@case()
def test_unique_violation_and_null_uniqueness():
    # 13.1.20 CREATE TABLE: "a UNIQUE index permits multiple NULL values"; duplicate -> error 1062 (SQLSTATE 23000)
    db = DB()
    db.setup('CREATE TABLE t (id INT PRIMARY KEY, u INT, UNIQUE KEY uk (u))', 'INSERT INTO t VALUES (1, 5), (2, NULL)')
    db.check_ok('INSERT INTO t VALUES (3, NULL)')
    db.check_err('INSERT INTO t VALUES (4, 5)', 1062)
    db.check_err('INSERT INTO t VALUES (1, 9)', 1062)
    db.check_err('UPDATE t SET u = 5 WHERE id = 2', 1062)
    try:
        db.run('INSERT INTO t VALUES (1, 9)')
    except MySQLError as e:
        if e.sqlstate != '23000':
            note('sqlstate of 1062', '23000', e.sqlstate)


@case()
def test_composite_primary_key():
    # 13.1.20: composite PRIMARY KEY uniqueness is on the tuple
    db = DB()
    db.setup('CREATE TABLE t (a INT, b VARCHAR(5), v INT, PRIMARY KEY (a, b))', "INSERT INTO t VALUES (1, 'x', 0), (1, 'y', 0), (2, 'x', 0)")
    db.check_err("INSERT INTO t VALUES (1, 'X', 1)", 1062)
    db.check_affected("INSERT INTO t VALUES (2, 'x', 1) ON DUPLICATE KEY UPDATE v = v + 1", 2)
    db.check("SELECT v FROM t WHERE a = 2 AND b = 'x'", 1)


@case()
def test_not_null_on_update():
    # 5.1.11 strict mode: UPDATE ... SET notnull_col = NULL is error 1048
    db = DB()
    db.setup('CREATE TABLE t (id INT PRIMARY KEY, a INT NOT NULL)', 'INSERT INTO t VALUES (1, 1)')
    db.check_err('UPDATE t SET a = NULL', 1048)
    db.check('SELECT a FROM t', 1)


@case()
def test_foreign_key_child_insert_and_restrict_delete():
    # 13.1.20.5 FOREIGN KEY Constraints: child insert/update without parent -> 1452; deleting a referenced parent
    # (default RESTRICT) -> 1451; NULL in the FK column is not checked
    db = DB()
    db.setup('CREATE TABLE p (id INT PRIMARY KEY)', 'CREATE TABLE c (id INT PRIMARY KEY, pid INT, FOREIGN KEY (pid) REFERENCES p(id))',
             'INSERT INTO p VALUES (1), (2)', 'INSERT INTO c VALUES (1, 1)')
    db.check_err('INSERT INTO c VALUES (2, 99)', 1452)
    db.check_ok('INSERT INTO c VALUES (3, NULL)')
    db.check_err('UPDATE c SET pid = 77 WHERE id = 1', 1452)
    db.check_err('DELETE FROM p WHERE id = 1', 1451)
    db.check_affected('DELETE FROM p WHERE id = 2', 1)
    db.check('SELECT COUNT(*) FROM p', 1)


@case()
def test_foreign_key_parent_key_update_restricted():
    # 13.1.20.5: ON UPDATE defaults to RESTRICT/NO ACTION: changing a referenced parent key -> error 1451
    db = DB()
    db.setup('CREATE TABLE p (id INT PRIMARY KEY, v INT)', 'CREATE TABLE c (id INT PRIMARY KEY, pid INT, FOREIGN KEY (pid) REFERENCES p(id))',
             'INSERT INTO p VALUES (1, 0)', 'INSERT INTO c VALUES (1, 1)')
    db.check_err('UPDATE p SET id = 5 WHERE id = 1', 1451)
    db.check_affected('UPDATE p SET v = 1 WHERE id = 1', 1)


@case()
def test_foreign_key_on_delete_cascade_multilevel():
    # 13.1.20.5: ON DELETE CASCADE deletes the children, transitively (batches -> jobs -> attempts ...);
    # the affected-rows count reports only the rows of the statement's own table
    db = DB()
    db.setup('CREATE TABLE p (id INT PRIMARY KEY)',
             'CREATE TABLE c (id INT PRIMARY KEY, pid INT, FOREIGN KEY (pid) REFERENCES p(id) ON DELETE CASCADE)',
             'CREATE TABLE g (id INT PRIMARY KEY, cid INT, FOREIGN KEY (cid) REFERENCES c(id) ON DELETE CASCADE)',
             'INSERT INTO p VALUES (1), (2)', 'INSERT INTO c VALUES (10, 1), (11, 1), (20, 2)', 'INSERT INTO g VALUES (100, 10), (200, 20)')
    db.check_affected('DELETE FROM p WHERE id = 1', 1)
    db.check('SELECT id FROM c', [(20,)])
    db.check('SELECT id FROM g', [(200,)])


@case()
def test_foreign_key_composite_and_case_insensitive_match():
    # 13.1.20.5: composite FK; string FK columns match with the column collation (ci)
    db = DB()
    db.setup('CREATE TABLE p (a INT, n VARCHAR(10), PRIMARY KEY (a, n))',
             'CREATE TABLE c (id INT PRIMARY KEY, a INT, n VARCHAR(10), FOREIGN KEY (a, n) REFERENCES p(a, n) ON DELETE CASCADE)',
             "INSERT INTO p VALUES (1, 'bp')")
    db.check_ok("INSERT INTO c VALUES (1, 1, 'BP')")
    db.check_err("INSERT INTO c VALUES (2, 2, 'bp')", 1452)
    db.check_affected('DELETE FROM p', 1)
    db.check('SELECT COUNT(*) FROM c', 0)


@case()
def test_cascade_delete_does_not_fire_triggers():
    # 25.8 Restrictions on Stored Programs / 13.1.20.5: "Cascaded foreign key actions do not activate triggers"
    db = DB()
    db.setup('CREATE TABLE p (id INT PRIMARY KEY)', 'CREATE TABLE log (msg VARCHAR(20))',
             'CREATE TABLE c (id INT PRIMARY KEY, pid INT, FOREIGN KEY (pid) REFERENCES p(id) ON DELETE CASCADE)',
             "CREATE TRIGGER c_ad AFTER DELETE ON c FOR EACH ROW INSERT INTO log VALUES ('deleted')",
             'INSERT INTO p VALUES (1)', 'INSERT INTO c VALUES (1, 1)', 'DELETE FROM p')
    db.check('SELECT COUNT(*) FROM c', 0)
    db.check('SELECT COUNT(*) FROM log', 0)


# =====================================================================================================
# 8. Transactions and statement atomicity
# =====================================================================================================

@case()
def test_statement_atomicity_multirow_insert():
    # 15.21.5 InnoDB Error Handling: "A duplicate-key error rolls back the SQL statement" -- all rows of it
    db = DB()
    db.setup('CREATE TABLE t (id INT PRIMARY KEY)', 'INSERT INTO t VALUES (2)')
    db.check_err('INSERT INTO t VALUES (1), (2), (3)', 1062)
    db.check('SELECT id FROM t', [(2,)])


@case()
def test_failed_statement_in_transaction_rolls_back_only_itself():
    # 15.21.5: the transaction stays open after a statement error; earlier statements survive and can be committed
    db = DB()
    db.setup('CREATE TABLE t (id INT PRIMARY KEY)', 'START TRANSACTION', 'INSERT INTO t VALUES (1)')
    db.check_err('INSERT INTO t VALUES (2), (1)', 1062)
    db.setup('INSERT INTO t VALUES (3)', 'COMMIT', 'ROLLBACK')
    db.check('SELECT id FROM t ORDER BY id', [(1,), (3,)])


@case()
def test_rollback_and_commit():
    # 13.3.1 START TRANSACTION, COMMIT, ROLLBACK
    db = DB()
    db.setup('CREATE TABLE t (id INT PRIMARY KEY)', 'START TRANSACTION', 'INSERT INTO t VALUES (1)', 'ROLLBACK')
    db.check('SELECT COUNT(*) FROM t', 0)
    db.setup('START TRANSACTION', 'INSERT INTO t VALUES (2)', 'COMMIT', 'ROLLBACK')
    db.check('SELECT COUNT(*) FROM t', 1)
    db.setup('INSERT INTO t VALUES (3)', 'ROLLBACK')  # autocommit: nothing to roll back
    db.check('SELECT COUNT(*) FROM t', 2)


@case()
def test_start_transaction_implicitly_commits():
    # 13.3.3 Statements That Cause an Implicit Commit: START TRANSACTION commits the current transaction
    db = DB()
    db.setup('CREATE TABLE t (id INT PRIMARY KEY)', 'START TRANSACTION', 'INSERT INTO t VALUES (1)',
             'START TRANSACTION', 'INSERT INTO t VALUES (2)', 'ROLLBACK')
    db.check('SELECT id FROM t', [(1,)])


@case()
def test_autocommit_off():
    # 13.3.1: with autocommit = 0 every statement is part of a transaction until COMMIT/ROLLBACK
    db = DB()
    db.setup('CREATE TABLE t (id INT PRIMARY KEY)', 'SET autocommit = 0', 'INSERT INTO t VALUES (1)', 'ROLLBACK')
    db.check('SELECT COUNT(*) FROM t', 0)
    db.setup('INSERT INTO t VALUES (2)', 'COMMIT', 'INSERT INTO t VALUES (3)', 'ROLLBACK')
    db.check('SELECT id FROM t', [(2,)])


@case()
def test_read_only_transaction_rejects_writes():
    # 13.3.1: START TRANSACTION READ ONLY -> error 1792 on writes
    db = DB()
    db.setup('CREATE TABLE t (id INT PRIMARY KEY)', 'START TRANSACTION READ ONLY')
    db.check_err('INSERT INTO t VALUES (1)', 1792)
    db.setup('COMMIT')
    db.check_ok('INSERT INTO t VALUES (1)')


# =====================================================================================================
# 9. User variables, SELECT ... INTO
# =====================================================================================================

@case()
def test_user_variables_basic():
    # 9.4 User-Defined Variables: unset -> NULL; SET @v = expr / := ; session-scoped
    db = DB()
    db.check('SELECT @nope', None)
    db.setup('SET @a = 1, @b := @a + 1')
    db.check('SELECT @a, @b, @a + @b', (1, 2, 3))
    db.check('SELECT @A', 1)  # names are case-insensitive
    s2 = db.session()
    db.check('SELECT @a', None, sess=s2)


@case(uncertain=True)
def test_user_variable_assignment_in_select_list_order():
    # 9.4: "the order of evaluation for expressions involving user variables is undefined"; in practice the select
    # list is evaluated left to right, per row (the batch procedures depend on this: -1 * (@v := COALESCE(SUM..)))
    db = DB()
    db.check('SELECT @v := 5, @v + 1', (5, 6))
    db.check('SELECT -1 * (@w := 7), @w', (-7, 7))
    db.setup('CREATE TABLE t (id INT PRIMARY KEY, v INT)', 'INSERT INTO t VALUES (1, 10), (2, 20), (3, 30)', 'SET @s = 0')
    db.check('SELECT id, @s := @s + v FROM t ORDER BY id', [(1, 10), (2, 30), (3, 60)])
    db.check('SELECT @s', 60)


@case(uncertain=True)
def test_user_variable_in_insert_select_odku_row_by_row():
    # cancel_job_group / cancel_batch / commit_batch_update: INSERT ... SELECT k, -1 * (@n := COALESCE(SUM(x), 0)) ...
    # GROUP BY k ON DUPLICATE KEY UPDATE n = n - @n.  The procedures assume that for each produced row the update
    # sees the @n assigned while producing THAT row.  9.4 leaves this undefined.
    db = DB()
    db.setup('CREATE TABLE src (u VARCHAR(5), x INT)', 'CREATE TABLE res (u VARCHAR(5) PRIMARY KEY, n INT NOT NULL, c INT NOT NULL DEFAULT 0)',
             "INSERT INTO src VALUES ('a', 1), ('a', 2), ('b', 10)", "INSERT INTO res (u, n) VALUES ('a', 100), ('b', 100)")
    db.check_affected('INSERT INTO res (u, n, c) SELECT u, -1 * (@n := COALESCE(SUM(x), 0)), COALESCE(SUM(x), 0) FROM src GROUP BY u '
                      'ON DUPLICATE KEY UPDATE n = n - @n, c = c + @n', 4)
    db.check('SELECT u, n, c FROM res ORDER BY u', [('a', 97, 3), ('b', 90, 10)])


@case()
def test_select_into_user_variables():
    # 13.2.13.1 SELECT ... INTO: one row -> assigned; no row -> warning 1329 "No data", variables keep their values;
    # more than one row -> error 1172
    db = DB()
    db.setup('CREATE TABLE t (id INT PRIMARY KEY, v INT)', 'INSERT INTO t VALUES (1, 10), (2, 20)', 'SET @a = 7, @b = 8')
    db.check_ok('SELECT id, v INTO @a, @b FROM t WHERE id = 2')
    db.check('SELECT @a, @b', (2, 20))
    db.check_ok('SELECT id, v INTO @a, @b FROM t WHERE id = 99')
    db.check('SELECT @a, @b', (2, 20))
    db.check_err('SELECT id, v INTO @a, @b FROM t', 1172)
    db.check_ok('SELECT v INTO @a FROM t ORDER BY id DESC LIMIT 1')
    db.check('SELECT @a', 20)
    db.check_ok('SELECT COUNT(*), MAX(v) INTO @a, @b FROM t WHERE id > 5')
    db.check('SELECT @a, @b', (0, None))


# =====================================================================================================
# 10. Stored procedures and functions
# =====================================================================================================

@case()
def test_declare_defaults_and_types():
    # 13.6.4.1 Local Variable DECLARE: default NULL unless DEFAULT given; values are converted to the declared type
    db = DB()
    db.setup("""CREATE PROCEDURE p()
BEGIN
  DECLARE a INT;
  DECLARE b INT DEFAULT 3;
  DECLARE c, d BIGINT DEFAULT 4;
  DECLARE s VARCHAR(10) DEFAULT 'x';
  DECLARE n INT;
  DECLARE f BOOLEAN DEFAULT FALSE;
  DECLARE g BOOLEAN;
  SET n = '5';
  SET n = n + 2.5;
  SET g = ('Ready' = 'ready');
  SELECT a, b, c, d, s, n, f, g;
END""")
    db.check('CALL p()', (None, 3, 4, 4, 'x', 8, 0, 1))


@case()
def test_param_coercion_varchar_and_int():
    # 25.2.1 / 13.1.17 CREATE PROCEDURE: arguments are converted to the parameter's declared type
    db = DB()
    db.setup('CREATE PROCEDURE p(IN a VARCHAR(100), IN b INT) BEGIN SELECT a, b, a = 5, CONCAT(a, b); END')
    db.check("CALL p(5, '7')", ('5', 7, 1, '57'))
    db.check('CALL p(%s, %s)', ('12', 3, 0, '123'), params=(12, 3))
    db.check_err('CALL p(1)', 1318)
    db.check_err('CALL nope()', 1305)


@case()
def test_if_elseif_else_null_condition():
    # 13.6.5.2 IF Statement: a NULL search_condition is not true -> next branch
    db = DB()
    db.setup("""CREATE PROCEDURE p(IN x INT)
BEGIN
  IF x = 1 THEN SELECT 'one';
  ELSEIF x = 2 THEN SELECT 'two';
  ELSE SELECT 'other';
  END IF;
END""", """CREATE PROCEDURE q(IN c BOOLEAN)
BEGIN
  IF NOT c THEN SELECT 'not-cancelled'; ELSE SELECT 'else'; END IF;
END""")
    db.check('CALL p(1)', 'one')
    db.check('CALL p(2)', 'two')
    db.check('CALL p(3)', 'other')
    db.check('CALL p(NULL)', 'other')
    db.check('CALL q(0)', 'not-cancelled')
    db.check('CALL q(NULL)', 'else')  # `IF NOT cur_cancelled` with NULL (job missing) is not taken
    db.check('CALL q(1)', 'else')


@case()
def test_while_loop_leave_iterate_repeat():
    # 13.6.5 Flow Control Statements: WHILE, LOOP + LEAVE, ITERATE, REPEAT ... UNTIL
    db = DB()
    db.setup("""CREATE PROCEDURE p()
BEGIN
  DECLARE i INT DEFAULT 0;
  DECLARE w INT DEFAULT 0;
  DECLARE l INT DEFAULT 0;
  DECLARE r INT DEFAULT 0;
  WHILE i < 5 DO SET i = i + 1; SET w = w + i; END WHILE;
  SET i = 0;
  lp: LOOP
    SET i = i + 1;
    IF i > 6 THEN LEAVE lp; END IF;
    IF i MOD 2 = 0 THEN ITERATE lp; END IF;
    SET l = l + i;
  END LOOP lp;
  REPEAT SET r = r + 1; UNTIL r >= 3 END REPEAT;
  SELECT w, l, r;
END""")
    db.check('CALL p()', (15, 9, 3))


@case()
def test_leave_labelled_block_leaves_only_that_block():
    # 13.6.5.4 LEAVE: exits the labelled construct; 13.6.2 Statement Labels
    db = DB()
    db.setup("""CREATE PROCEDURE p()
BEGIN
  DECLARE r INT DEFAULT 0;
  blk: BEGIN
    SET r = r + 1;
    LEAVE blk;
    SET r = r + 10;
  END blk;
  SET r = r + 100;
  SELECT r;
END""")
    db.check('CALL p()', 101)


@case()
def test_cursor_loop_with_not_found_handler():
    # 13.6.6 Cursors + 13.6.7.2 DECLARE ... HANDLER: FETCH past the end raises NOT FOUND (SQLSTATE 02000); the
    # CONTINUE handler runs and execution continues after the FETCH
    db = DB()
    db.setup('CREATE TABLE t (id INT PRIMARY KEY, v INT)', 'INSERT INTO t VALUES (3, 30), (1, 10), (2, 20)', """CREATE PROCEDURE p()
BEGIN
  DECLARE x INT; DECLARE y INT;
  DECLARE done BOOLEAN DEFAULT FALSE;
  DECLARE n INT DEFAULT 0; DECLARE s VARCHAR(50) DEFAULT '';
  DECLARE c CURSOR FOR SELECT id, v FROM t ORDER BY id ASC;
  DECLARE CONTINUE HANDLER FOR NOT FOUND SET done = TRUE;
  OPEN c;
  l: LOOP
    FETCH c INTO x, y;
    IF done THEN LEAVE l; END IF;
    SET n = n + 1; SET s = CONCAT(s, x, ':', y, ';');
  END LOOP;
  CLOSE c;
  SELECT n, s, x;
END""")
    db.check('CALL p()', (3, '1:10;2:20;3:30;', 3))


@case()
def test_select_into_no_row_fires_not_found_handler_in_loop():
    # 13.2.13.1 + 13.6.7.2: a SELECT ... INTO that finds no row raises the same NOT FOUND condition, so the cursor
    # loop's CONTINUE handler sets done and the loop stops early (mark_job_group_complete is written this way)
    db = DB()
    db.setup('CREATE TABLE t (id INT PRIMARY KEY)', 'CREATE TABLE u (id INT PRIMARY KEY, v INT)',
             'INSERT INTO t VALUES (1), (2), (3)', 'INSERT INTO u VALUES (2, 20), (3, 30)', """CREATE PROCEDURE p()
BEGIN
  DECLARE x INT; DECLARE y INT DEFAULT -1;
  DECLARE done BOOLEAN DEFAULT FALSE;
  DECLARE n INT DEFAULT 0;
  DECLARE c CURSOR FOR SELECT id FROM t ORDER BY id;
  DECLARE CONTINUE HANDLER FOR NOT FOUND SET done = TRUE;
  OPEN c;
  l: LOOP
    FETCH c INTO x;
    IF done THEN LEAVE l; END IF;
    SELECT v INTO y FROM u WHERE id = x LOCK IN SHARE MODE;
    SET n = n + 1;
  END LOOP;
  CLOSE c;
  SELECT n, y, done;
END""")
    db.check('CALL p()', (1, -1, 1))


@case()
def test_select_into_no_row_without_handler_continues():
    # 13.2.13.1: no row -> warning 1329 only; local variables keep their values and the routine continues
    db = DB()
    db.setup('CREATE TABLE t (id INT PRIMARY KEY, v INT)', 'INSERT INTO t VALUES (1, 10), (2, 20)', """CREATE PROCEDURE p(IN k INT)
BEGIN
  DECLARE a INT DEFAULT 7;
  DECLARE st VARCHAR(10);
  SELECT v INTO a FROM t WHERE id = k FOR UPDATE;
  SELECT 'x' INTO st FROM t WHERE id = k;
  SELECT a, st, st = 'x', NOT (st = 'x');
END""", """CREATE PROCEDURE many()
BEGIN
  DECLARE a INT;
  SELECT v INTO a FROM t;
END""")
    db.check('CALL p(2)', (20, 'x', 1, 0))
    db.check('CALL p(9)', (7, None, None, None))
    db.check_err('CALL many()', 1172)


@case()
def test_fetch_without_handler_is_error():
    # 13.6.6.3 Cursor FETCH: "If no more rows are available, a No Data condition occurs"; unhandled it terminates
    # the routine with error 1329; FETCH on a closed cursor -> 1326
    db = DB()
    db.setup('CREATE TABLE t (id INT PRIMARY KEY)', """CREATE PROCEDURE p()
BEGIN
  DECLARE x INT;
  DECLARE c CURSOR FOR SELECT id FROM t;
  OPEN c; FETCH c INTO x; CLOSE c;
  SELECT 'after';
END""", """CREATE PROCEDURE q()
BEGIN
  DECLARE x INT;
  DECLARE c CURSOR FOR SELECT id FROM t;
  FETCH c INTO x;
END""")
    db.check_err('CALL p()', 1329)
    db.check_err('CALL q()', 1326)


@case()
def test_continue_handler_sqlexception():
    # 13.6.7.2: CONTINUE handler: the failing statement is rolled back, the handler body runs, execution continues
    # with the next statement; SQLEXCEPTION does not cover NOT FOUND
    db = DB()
    db.setup('CREATE TABLE t (id INT PRIMARY KEY)', 'INSERT INTO t VALUES (1)', """CREATE PROCEDURE p()
BEGIN
  DECLARE errs INT DEFAULT 0;
  DECLARE x INT DEFAULT 5;
  DECLARE CONTINUE HANDLER FOR SQLEXCEPTION SET errs = errs + 1;
  INSERT INTO t VALUES (2), (1);
  INSERT INTO t VALUES (3);
  SELECT id INTO x FROM t WHERE id = 99;
  SELECT errs, x;
END""")
    db.check('CALL p()', (1, 5))
    db.check('SELECT id FROM t ORDER BY id', [(1,), (3,)])


@case()
def test_exit_handler_leaves_declaring_block_only():
    # 13.6.7.2: EXIT handler: "execution terminates for the BEGIN ... END compound statement in which the handler
    # is declared" -- the enclosing block continues
    db = DB()
    db.setup('CREATE TABLE t (id INT PRIMARY KEY)', 'INSERT INTO t VALUES (1)', """CREATE PROCEDURE p()
BEGIN
  DECLARE r INT DEFAULT 0;
  BEGIN
    DECLARE EXIT HANDLER FOR SQLEXCEPTION SET r = r + 10;
    INSERT INTO t VALUES (1);
    SET r = r + 100;
  END;
  SET r = r + 1;
  SELECT r;
END""")
    db.check('CALL p()', 11)


@case()
def test_exit_handler_in_outermost_block_ends_procedure():
    # 13.6.7.2: EXIT handler declared in the routine's outer block: routine ends after the handler body,
    # the caller sees no error
    db = DB()
    db.setup('CREATE TABLE t (id INT PRIMARY KEY)', 'CREATE TABLE log (m VARCHAR(20))', 'INSERT INTO t VALUES (1)', """CREATE PROCEDURE p()
BEGIN
  DECLARE EXIT HANDLER FOR SQLEXCEPTION INSERT INTO log VALUES ('handled');
  INSERT INTO t VALUES (1);
  INSERT INTO log VALUES ('not reached');
END""")
    db.check_ok('CALL p()')
    db.check('SELECT m FROM log', [('handled',)])


@case()
def test_handler_specificity_errno_over_sqlexception():
    # 13.6.7.6 Scope Rules for Handlers: "precedence: MySQL error code handler > SQLSTATE handler > SQLEXCEPTION",
    # independent of declaration order
    db = DB()
    db.setup('CREATE TABLE t (id INT PRIMARY KEY)', 'INSERT INTO t VALUES (1)', """CREATE PROCEDURE p()
BEGIN
  DECLARE r VARCHAR(20) DEFAULT 'none';
  DECLARE CONTINUE HANDLER FOR 1062 SET r = 'errno';
  DECLARE CONTINUE HANDLER FOR SQLSTATE '23000' SET r = 'sqlstate';
  DECLARE CONTINUE HANDLER FOR SQLEXCEPTION SET r = 'sqlexception';
  INSERT INTO t VALUES (1);
  SELECT r;
END""")
    db.check('CALL p()', 'errno')


@case()
def test_handler_scope_ends_with_block():
    # 13.6.7.6: a handler is in scope only within the block where it is declared
    db = DB()
    db.setup('CREATE TABLE t (id INT PRIMARY KEY)', 'INSERT INTO t VALUES (1)', """CREATE PROCEDURE p()
BEGIN
  BEGIN
    DECLARE CONTINUE HANDLER FOR SQLEXCEPTION BEGIN END;
    INSERT INTO t VALUES (1);
  END;
  INSERT INTO t VALUES (1);
END""")
    db.check_err('CALL p()', 1062)


@case()
def test_out_and_inout_parameters():
    # 13.1.17 CREATE PROCEDURE: an OUT parameter's "initial value is NULL within the procedure"; INOUT is
    # initialised by the caller; the value is visible to the caller when the procedure returns
    # (add_attempt(..., OUT delta_cores_mcpu) starts with SET delta = IFNULL(delta, 0))
    db = DB()
    db.setup('CREATE PROCEDURE addo(IN a INT, OUT b INT) BEGIN SET b = IFNULL(b, 0) + a; END',
             'CREATE PROCEDURE addio(IN a INT, INOUT b INT) BEGIN SET b = IFNULL(b, 0) + a; END',
             'CREATE PROCEDURE noset(OUT b INT) BEGIN END', """CREATE PROCEDURE outer_p()
BEGIN
  DECLARE d INT DEFAULT 7;
  DECLARE e INT DEFAULT 7;
  DECLARE f INT DEFAULT 7;
  CALL addo(5, d);
  CALL addio(5, e);
  CALL noset(f);
  SELECT d, e, f;
END""")
    db.check('CALL outer_p()', (5, 12, None))
    db.setup('SET @o = 99', 'CALL addo(1, @o)')
    db.check('SELECT @o', 1)
    db.setup('SET @o = 99', 'CALL addio(1, @o)')
    db.check('SELECT @o', 100)
    db.check_err('CALL addo(1, 5)', 1414)


@case()
def test_local_variable_shadows_column():
    # 13.6.4.2 Local Variable Scope and Resolution: "a local variable takes precedence over a column of the same
    # name"; a qualified name is always the column (is_job_group_cancelled: WHERE self.batch_id = batch_id)
    db = DB()
    db.setup('CREATE TABLE t (id INT PRIMARY KEY, v INT)', 'INSERT INTO t VALUES (1, 10), (2, 20)', """CREATE PROCEDURE p()
BEGIN
  DECLARE id INT DEFAULT 2;
  SELECT COUNT(*) FROM t WHERE id = id;
END""", """CREATE PROCEDURE q(IN id INT)
BEGIN
  SELECT t.v, id FROM t WHERE t.id = id;
END""", """CREATE PROCEDURE r()
BEGIN
  DECLARE v INT DEFAULT 100;
  UPDATE t SET v = v + 1 WHERE t.id = 1;
  SELECT t.v FROM t WHERE t.id = 1;
END""", 'CREATE FUNCTION f(id INT) RETURNS INT RETURN (SELECT x.v FROM t AS x WHERE x.id = id)')
    db.check('CALL p()', 2)
    db.check('CALL q(2)', (20, 2))
    db.check('CALL r()', 101)
    db.check('SELECT f(2), f(5)', (20, None))


@case()
def test_nested_call_and_result_sets():
    # 25.2.1: procedures may CALL others; a SELECT without INTO sends a result set to the client
    db = DB()
    db.setup('CREATE TABLE t (id INT PRIMARY KEY)', 'CREATE PROCEDURE ins(IN k INT) BEGIN INSERT INTO t VALUES (k); END',
             "CREATE PROCEDURE two() BEGIN CALL ins(1); CALL ins(2); SELECT 0 AS rc, COUNT(*) AS n, 'ok' AS message FROM t; END")
    r = db.check_ok('CALL two()')
    if r is not None:
        if list(r.cols or []) != ['rc', 'n', 'message']:
            note('CALL two() column names', "['rc', 'n', 'message']", repr(r.cols))
        if [tuple(x) for x in (r.rows or [])] != [(0, 2, 'ok')]:
            note('CALL two() rows', "[(0, 2, 'ok')]", repr(r.rows))


@case()
def test_signal():
    # 13.6.7.5 SIGNAL: SQLSTATE '45000' -> error 1644 (ER_SIGNAL_EXCEPTION) with MESSAGE_TEXT; MYSQL_ERRNO overrides;
    # without MESSAGE_TEXT the text is 'Unhandled user-defined exception condition'
    db = DB()
    db.setup("""CREATE PROCEDURE p(IN m INT)
BEGIN
  IF m = 1 THEN SIGNAL SQLSTATE '45000' SET MESSAGE_TEXT = "job group has already been cancelled";
  ELSEIF m = 2 THEN SIGNAL SQLSTATE '45000' SET MYSQL_ERRNO = 5001, MESSAGE_TEXT = 'custom';
  ELSE SIGNAL SQLSTATE '45000';
  END IF;
END""")
    for arg, errno, msg in ((1, 1644, 'job group has already been cancelled'), (2, 5001, 'custom'),
                            (3, 1644, 'Unhandled user-defined exception condition')):
        try:
            db.run(f'CALL p({arg})')
            note(f'CALL p({arg})', f'error {errno}', 'no error')
        except MySQLError as e:
            if (e.errno, e.msg, e.sqlstate) != (errno, msg, '45000'):
                note(f'CALL p({arg})', repr((errno, msg, '45000')), repr((e.errno, e.msg, e.sqlstate)))


@case()
def test_signal_caught_by_sqlexception_handler():
    # 13.6.7.5: SQLSTATE class '45' is an exception -> SQLEXCEPTION handlers apply
    db = DB()
    db.setup("""CREATE PROCEDURE p()
BEGIN
  DECLARE r INT DEFAULT 0;
  DECLARE CONTINUE HANDLER FOR SQLEXCEPTION SET r = 1;
  SIGNAL SQLSTATE '45000' SET MESSAGE_TEXT = 'x';
  SELECT r;
END""")
    db.check('CALL p()', 1)


@case(optional=True)
def test_resignal():
    # 13.6.7.4 RESIGNAL (not used by the batch SQL)
    db = DB()
    db.setup('CREATE TABLE t (id INT PRIMARY KEY)', 'INSERT INTO t VALUES (1)', """CREATE PROCEDURE p()
BEGIN
  DECLARE EXIT HANDLER FOR SQLEXCEPTION BEGIN RESIGNAL; END;
  INSERT INTO t VALUES (1);
END""")
    db.check_err('CALL p()', 1062)


@case()
def test_stored_function_in_expressions():
    # 25.2.1 Stored Routine Syntax / 13.1.17 CREATE FUNCTION: functions are usable in any expression; EXISTS gives 0/1;
    # a scalar subquery with no row returns NULL (is_job_cancelled for a missing job)
    db = DB()
    db.setup('CREATE TABLE anc (bid BIGINT, gid INT, aid INT, PRIMARY KEY (bid, gid, aid))',
             'CREATE TABLE canc (id BIGINT, gid INT, PRIMARY KEY (id, gid))',
             'CREATE TABLE j (batch_id BIGINT, job_id INT, job_group_id INT, always_run BOOLEAN, cancelled BOOLEAN, PRIMARY KEY (batch_id, job_id))',
             'INSERT INTO anc VALUES (1, 0, 0), (1, 1, 1), (1, 1, 0), (1, 2, 2), (1, 2, 1), (1, 2, 0)',
             'INSERT INTO canc VALUES (1, 1)',
             'INSERT INTO j VALUES (1, 1, 0, 0, 0), (1, 2, 2, 0, 0), (1, 3, 2, 1, 0), (1, 4, 0, 0, 1)',
             """CREATE FUNCTION is_jg_cancelled (batch_id BIGINT, job_group_id INT) RETURNS BOOLEAN NOT DETERMINISTIC
RETURN EXISTS (SELECT 1 FROM anc AS self INNER JOIN canc AS c ON self.bid = c.id AND self.aid = c.gid
               WHERE self.bid = batch_id AND self.gid = job_group_id)""",
             """CREATE FUNCTION is_j_cancelled (batch_id BIGINT, job_id INT) RETURNS BOOLEAN NOT DETERMINISTIC
RETURN (SELECT NOT j.always_run AND (j.cancelled OR is_jg_cancelled(j.batch_id, j.job_group_id)) FROM j
        WHERE j.batch_id = batch_id AND j.job_id = job_id)""")
    db.check('SELECT is_jg_cancelled(1, 0), is_jg_cancelled(1, 1), is_jg_cancelled(1, 2), is_jg_cancelled(9, 9)', (0, 1, 1, 0))
    db.check('SELECT is_j_cancelled(1, 1), is_j_cancelled(1, 2), is_j_cancelled(1, 3), is_j_cancelled(1, 4), is_j_cancelled(1, 99)',
             (0, 1, 0, 1, None))
    db.check('SELECT job_id FROM j WHERE is_j_cancelled(batch_id, job_id) ORDER BY job_id', [(2,), (4,)])
    db.check_ok('SELECT is_j_cancelled(1, 2) INTO @c FOR SHARE')
    db.check('SELECT @c', 1)


@case()
def test_function_scalar_subquery_multiple_rows_error():
    # 13.2.15.10: the pre-121 is_job_cancelled (LEFT JOIN LATERAL, one row per cancelled ancestor) fails with 1242
    # when two ancestors are cancelled
    db = DB()
    db.setup('CREATE TABLE j (id INT PRIMARY KEY, g INT)', 'CREATE TABLE c (g INT, a INT)', 'INSERT INTO j VALUES (1, 5)',
             'INSERT INTO c VALUES (5, 0), (5, 1)',
             'CREATE FUNCTION f(job_id INT) RETURNS BOOLEAN RETURN (SELECT c.x IS NOT NULL FROM j LEFT JOIN LATERAL '
             '(SELECT 1 AS x FROM c WHERE c.g = j.g) AS c ON TRUE WHERE j.id = job_id)')
    db.check_err('SELECT f(1)', 1242)


@case()
def test_function_return_is_coerced_to_declared_type():
    # 13.1.17 CREATE FUNCTION: "the value is coerced to the proper type" of the RETURNS clause
    db = DB()
    db.setup('CREATE FUNCTION fi() RETURNS INT RETURN 2.6', "CREATE FUNCTION fs() RETURNS VARCHAR(10) RETURN 12",
             'CREATE FUNCTION fb(x INT) RETURNS BOOLEAN RETURN x > 1')
    db.check('SELECT fi()', 3)
    db.check('SELECT fs()', '12')
    db.check('SELECT fb(2), fb(0), fb(NULL)', (1, 0, None))


@case()
def test_procedure_transaction_control():
    # 13.3.1 + 25.2.1: START TRANSACTION / COMMIT / ROLLBACK are allowed inside procedures and act on the session
    db = DB()
    db.setup('CREATE TABLE t (id INT PRIMARY KEY)', """CREATE PROCEDURE p(IN k INT, IN ok BOOLEAN)
BEGIN
  START TRANSACTION;
  INSERT INTO t VALUES (k);
  IF ok THEN COMMIT; SELECT 0 AS rc; ELSE ROLLBACK; SELECT 1 AS rc; END IF;
END""")
    db.check('CALL p(1, TRUE)', 0)
    db.check('CALL p(2, FALSE)', 1)
    db.setup('ROLLBACK')
    db.check('SELECT id FROM t', [(1,)])
    s2 = db.session()
    db.check('SELECT id FROM t', [(1,)], sess=s2)


@case()
def test_procedure_error_leaves_transaction_open():
    # 15.21.5 InnoDB Error Handling + 25.2.1: a procedure is not atomic; an error in it rolls back only the failing
    # statement.  Work done after START TRANSACTION stays pending in the (still open) transaction: a later COMMIT --
    # or the implicit commit of the next START TRANSACTION on a pooled connection -- makes it durable.
    db = DB()
    db.setup('CREATE TABLE t (id INT PRIMARY KEY)', """CREATE PROCEDURE p()
BEGIN
  START TRANSACTION;
  INSERT INTO t VALUES (1);
  SIGNAL SQLSTATE '45000' SET MESSAGE_TEXT = 'boom';
  COMMIT;
END""")
    db.check_err('CALL p()', 1644)
    db.check('SELECT COUNT(*) FROM t', 1)   # visible inside the open transaction
    db.setup('COMMIT')
    db.check('SELECT COUNT(*) FROM t', 1)
    db2 = DB()
    db2.setup('CREATE TABLE t (id INT PRIMARY KEY)', """CREATE PROCEDURE p()
BEGIN
  START TRANSACTION;
  INSERT INTO t VALUES (1);
  SIGNAL SQLSTATE '45000' SET MESSAGE_TEXT = 'boom';
END""")
    db2.check_err('CALL p()', 1644)
    db2.setup('ROLLBACK')
    db2.check('SELECT COUNT(*) FROM t', 0)


@case()
def test_procedure_statements_autocommit_individually():
    # 13.3.1 / 25.2.1: in autocommit mode each statement inside a procedure commits on its own; a later error
    # does not undo it
    db = DB()
    db.setup('CREATE TABLE t (id INT PRIMARY KEY)', """CREATE PROCEDURE p()
BEGIN
  INSERT INTO t VALUES (1);
  INSERT INTO t VALUES (1);
END""")
    db.check_err('CALL p()', 1062)
    db.check('SELECT COUNT(*) FROM t', 1)


@case()
def test_function_and_trigger_are_atomic_with_statement():
    # 25.8 / 15.21.5: stored functions and triggers run as part of the invoking statement: if it fails their
    # changes are rolled back with it
    db = DB()
    db.setup('CREATE TABLE t (id INT PRIMARY KEY)', 'CREATE TABLE log (m INT)',
             'CREATE FUNCTION f(x INT) RETURNS INT BEGIN INSERT INTO log VALUES (x); RETURN x; END', 'INSERT INTO t VALUES (2)')
    db.check_err('INSERT INTO t VALUES (f(1)), (f(2))', 1062)
    db.check('SELECT COUNT(*) FROM log', 0)
    db.check('SELECT COUNT(*) FROM t', 1)


# =====================================================================================================
# 11. Triggers
# =====================================================================================================

def _trig_tables(db):
    db.setup('CREATE TABLE t (id INT PRIMARY KEY, v INT, w INT)',
             'CREATE TABLE log (n INT NOT NULL AUTO_INCREMENT PRIMARY KEY, ev VARCHAR(20), a INT, b INT)')


@case()
def test_before_insert_trigger_sets_new():
    # 25.3.1 Trigger Syntax and Examples: in a BEFORE trigger NEW.col may be changed with SET; the stored row
    # gets the modified value
    db = DB()
    _trig_tables(db)
    db.setup('CREATE TRIGGER t_bi BEFORE INSERT ON t FOR EACH ROW BEGIN IF NEW.v IS NULL THEN SET NEW.v = 42; END IF; '
             'SET NEW.w = NEW.v * 2; END', 'INSERT INTO t (id, v) VALUES (1, NULL), (2, 5)')
    db.check('SELECT id, v, w FROM t ORDER BY id', [(1, 42, 84), (2, 5, 10)])


@case()
def test_before_insert_trigger_can_fix_not_null():
    # 25.3.1 / 13.1.22 CREATE TRIGGER: NOT NULL is checked after BEFORE triggers ran (since 5.7.5), so a trigger
    # may replace a NULL; setting a NOT NULL column to NULL in the trigger is error 1048
    db = DB()
    db.setup('CREATE TABLE t (id INT PRIMARY KEY, v INT NOT NULL)',
             'CREATE TRIGGER t_bi BEFORE INSERT ON t FOR EACH ROW BEGIN IF NEW.v IS NULL THEN SET NEW.v = 0; END IF; '
             'IF NEW.v = 13 THEN SET NEW.v = NULL; END IF; END')
    db.check_ok('INSERT INTO t VALUES (1, NULL)')
    db.check('SELECT v FROM t', 0)
    db.check_err('INSERT INTO t VALUES (2, 13)', 1048)


@case()
def test_before_update_trigger_old_new_and_affected_rows():
    # 25.3.1: OLD/NEW in UPDATE triggers; a BEFORE UPDATE trigger that restores OLD values makes the row
    # "unchanged" (affected rows 0) -- attempts_before_update / instances_before_update pin values this way
    db = DB()
    _trig_tables(db)
    db.setup('CREATE TRIGGER t_bu BEFORE UPDATE ON t FOR EACH ROW BEGIN '
             'IF OLD.v IS NOT NULL AND (NEW.v IS NULL OR NEW.v > OLD.v) THEN SET NEW.v = OLD.v; END IF; END',
             'INSERT INTO t VALUES (1, 10, 0), (2, NULL, 0)')
    db.check_affected('UPDATE t SET v = 20 WHERE id = 1', 0)
    db.check_affected('UPDATE t SET v = NULL WHERE id = 1', 0)
    db.check_affected('UPDATE t SET v = 5 WHERE id = 1', 1)
    db.check_affected('UPDATE t SET v = 7 WHERE id = 2', 1)
    db.check('SELECT id, v FROM t ORDER BY id', [(1, 5), (2, 7)])


@case()
def test_after_triggers_see_final_values():
    # 25.3.1: AFTER triggers see the row as stored (after BEFORE-trigger modifications); OLD is the previous row
    db = DB()
    _trig_tables(db)
    db.setup('CREATE TRIGGER t_bu BEFORE UPDATE ON t FOR EACH ROW SET NEW.w = NEW.v + 1',
             "CREATE TRIGGER t_au AFTER UPDATE ON t FOR EACH ROW INSERT INTO log (ev, a, b) VALUES ('au', OLD.w, NEW.w)",
             "CREATE TRIGGER t_ai AFTER INSERT ON t FOR EACH ROW INSERT INTO log (ev, a, b) VALUES ('ai', NEW.id, NEW.v)",
             "CREATE TRIGGER t_ad AFTER DELETE ON t FOR EACH ROW INSERT INTO log (ev, a, b) VALUES ('ad', OLD.id, OLD.v)",
             "CREATE TRIGGER t_bd BEFORE DELETE ON t FOR EACH ROW INSERT INTO log (ev, a, b) VALUES ('bd', OLD.id, OLD.w)",
             'INSERT INTO t VALUES (1, 10, 0)', 'UPDATE t SET v = 20', 'DELETE FROM t')
    db.check('SELECT ev, a, b FROM log ORDER BY n', [('ai', 1, 10), ('au', 0, 21), ('bd', 1, 21), ('ad', 1, 20)])


@case()
def test_update_triggers_fire_for_unchanged_rows():
    # 25.3.1: UPDATE triggers activate for every row the statement processes, also when no column value changes
    # (jobs_after_update still runs; its deltas must then be zero)
    db = DB()
    _trig_tables(db)
    db.setup("CREATE TRIGGER t_bu BEFORE UPDATE ON t FOR EACH ROW INSERT INTO log (ev, a, b) VALUES ('bu', OLD.v, NEW.v)",
             "CREATE TRIGGER t_au AFTER UPDATE ON t FOR EACH ROW INSERT INTO log (ev, a, b) VALUES ('au', OLD.v, NEW.v)",
             'INSERT INTO t VALUES (1, 10, 0), (2, 20, 0)')
    db.check_affected('UPDATE t SET v = v', 0)
    db.check('SELECT ev, a, b FROM log ORDER BY n', [('bu', 10, 10), ('au', 10, 10), ('bu', 20, 20), ('au', 20, 20)])
    db.check_affected('UPDATE t SET v = 10 WHERE id = 99', 0)
    db.check('SELECT COUNT(*) FROM log', 4)


@case()
def test_odku_trigger_sequence():
    # 25.3.1: for INSERT ... ON DUPLICATE KEY UPDATE "a BEFORE INSERT trigger activates for every row, followed by
    # either an AFTER INSERT trigger or both the BEFORE UPDATE and AFTER UPDATE triggers"
    db = DB()
    _trig_tables(db)
    for tm in ('BEFORE', 'AFTER'):
        for ev in ('INSERT', 'UPDATE'):
            db.setup(f"CREATE TRIGGER t_{tm[0]}{ev[0]} {tm} {ev} ON t FOR EACH ROW INSERT INTO log (ev) VALUES ('{tm[0]}{ev[0]}')")
    db.setup('INSERT INTO t VALUES (1, 1, 0) ON DUPLICATE KEY UPDATE v = v + 1')
    db.check('SELECT ev FROM log ORDER BY n', [('BI',), ('AI',)])
    db.setup('DELETE FROM log', 'INSERT INTO t VALUES (1, 1, 0) ON DUPLICATE KEY UPDATE v = v + 1')
    db.check('SELECT ev FROM log ORDER BY n', [('BI',), ('BU',), ('AU',)])
    db.setup('DELETE FROM log', 'INSERT INTO t VALUES (1, 1, 0) ON DUPLICATE KEY UPDATE v = v')
    db.check('SELECT ev FROM log ORDER BY n', [('BI',), ('BU',), ('AU',)])


@case()
def test_trigger_signal_aborts_statement():
    # 25.3.1: "An error during either a BEFORE or AFTER trigger results in failure of the entire statement";
    # InnoDB rolls back all rows of the statement and the triggers' own changes
    db = DB()
    _trig_tables(db)
    db.setup("CREATE TRIGGER t_bi BEFORE INSERT ON t FOR EACH ROW BEGIN INSERT INTO log (ev) VALUES ('bi'); "
             "IF NEW.v < 0 THEN SIGNAL SQLSTATE '45000' SET MESSAGE_TEXT = 'negative'; END IF; END")
    db.check_err('INSERT INTO t VALUES (1, 1, 0), (2, -1, 0)', 1644)
    db.check('SELECT COUNT(*) FROM t', 0)
    db.check('SELECT COUNT(*) FROM log', 0)
    db.check_ok('INSERT INTO t VALUES (1, 1, 0)')
    db.check('SELECT COUNT(*) FROM log', 1)


@case()
def test_after_trigger_error_rolls_back_row_change():
    # 25.3.1: an AFTER trigger error also fails the statement; the row change itself is undone
    db = DB()
    _trig_tables(db)
    db.setup('CREATE TABLE u (k INT PRIMARY KEY)', 'INSERT INTO u VALUES (1)',
             'CREATE TRIGGER t_au AFTER UPDATE ON t FOR EACH ROW INSERT INTO u VALUES (NEW.v)', 'INSERT INTO t VALUES (1, 0, 0)')
    db.check_err('UPDATE t SET v = 1', 1062)
    db.check('SELECT v FROM t', 0)
    db.check_affected('UPDATE t SET v = 2', 1)
    db.check('SELECT k FROM u ORDER BY k', [(1,), (2,)])


@case()
def test_trigger_on_multi_table_update():
    # 25.3.1 + 13.2.17: triggers of every updated table fire in a multiple-table UPDATE
    db = DB()
    _trig_tables(db)
    db.setup('CREATE TABLE s (id INT PRIMARY KEY, d INT)', 'INSERT INTO s VALUES (1, 5), (2, 6)', 'INSERT INTO t VALUES (1, 0, 0), (2, 0, 0)',
             "CREATE TRIGGER t_au AFTER UPDATE ON t FOR EACH ROW INSERT INTO log (ev, a, b) VALUES ('au', OLD.v, NEW.v)")
    db.check_affected('UPDATE t INNER JOIN s ON s.id = t.id SET t.v = s.d', 2)
    db.check_set('SELECT ev, a, b FROM log', [('au', 0, 5), ('au', 0, 6)])


@case()
def test_trigger_local_variables_and_select_into():
    # 25.3.1 + 13.6.4: trigger bodies may DECLARE variables, SELECT ... INTO them (no row: stay NULL) and call
    # functions; lowercase `old.`/`new.` qualifiers are accepted (jobs_after_update)
    db = DB(rand=lambda: 0.5)
    _trig_tables(db)
    db.setup('CREATE TABLE globals (n_tokens INT)', 'INSERT INTO globals VALUES (200)',
             'CREATE TABLE res (tok INT PRIMARY KEY, n INT NOT NULL)', """CREATE TRIGGER t_au AFTER UPDATE ON t FOR EACH ROW
BEGIN
  DECLARE cur_n_tokens INT;
  DECLARE rand_token INT;
  DECLARE was_ready BOOLEAN;
  DECLARE now_ready BOOLEAN;
  DECLARE delta INT;
  SELECT n_tokens INTO cur_n_tokens FROM globals LOCK IN SHARE MODE;
  SET rand_token = FLOOR(RAND() * cur_n_tokens);
  SET was_ready = old.v = 1;
  SET now_ready = new.v = 1;
  SET delta = (-1 * was_ready) + now_ready;
  INSERT INTO res (tok, n) VALUES (rand_token, delta) ON DUPLICATE KEY UPDATE n = n + delta;
END""", 'INSERT INTO t VALUES (1, 0, 0), (2, 1, 0)')
    db.setup('UPDATE t SET v = 1 WHERE id = 1')
    db.check('SELECT tok, n FROM res', [(100, 1)])
    db.setup('UPDATE t SET v = 0')
    db.check('SELECT tok, n FROM res', [(100, -1)])


@case()
def test_before_insert_trigger_sees_zero_auto_increment():
    # 25.3.1: "In a BEFORE trigger, the NEW value for an AUTO_INCREMENT column is 0, not the sequence number that is
    # generated automatically when the new row actually is inserted"
    db = DB()
    db.setup('CREATE TABLE t (id INT NOT NULL AUTO_INCREMENT PRIMARY KEY, seen INT)',
             'CREATE TRIGGER t_bi BEFORE INSERT ON t FOR EACH ROW SET NEW.seen = NEW.id', 'INSERT INTO t (seen) VALUES (NULL)')
    db.check('SELECT id, seen FROM t', (1, 0))


@case()
def test_drop_and_recreate_trigger_and_procedure():
    # 13.1.31 DROP TRIGGER / 13.1.29 DROP PROCEDURE: IF EXISTS; recreating takes effect for later statements
    db = DB()
    _trig_tables(db)
    db.setup('DROP TRIGGER IF EXISTS t_bi', 'CREATE TRIGGER t_bi BEFORE INSERT ON t FOR EACH ROW SET NEW.w = 1', 'INSERT INTO t VALUES (1, 0, 0)',
             'DROP TRIGGER IF EXISTS t_bi', 'CREATE TRIGGER t_bi BEFORE INSERT ON t FOR EACH ROW SET NEW.w = 2', 'INSERT INTO t VALUES (2, 0, 0)',
             'DROP PROCEDURE IF EXISTS p', 'CREATE PROCEDURE p() SELECT 1', 'CALL p()', 'DROP PROCEDURE IF EXISTS p', 'CREATE PROCEDURE p() SELECT 2')
    db.check('SELECT w FROM t ORDER BY id', [(1,), (2,)])
    db.check('CALL p()', 2)
    db.check_err('CREATE PROCEDURE p() SELECT 3', 1304)
    db.check_err('DROP PROCEDURE nope', 1305)


# =====================================================================================================
# 12. Date/time and JSON functions the batch SQL uses
# =====================================================================================================

@case()
def test_date_time_functions():
    # 12.7 Date and Time Functions: UTC_DATE(), NOW(), UNIX_TIMESTAMP() (clock pinned to 1700000000)
    db = DB()
    db.check('SELECT UTC_DATE()', datetime.date(2023, 11, 14))
    db.check('SELECT CAST(UTC_DATE() AS DATE)', datetime.date(2023, 11, 14))
    db.check('SELECT UNIX_TIMESTAMP()', 1700000000)
    db.check('SELECT NOW()', datetime.datetime(2023, 11, 14, 22, 13, 20))


@case()
def test_date_column_comparisons():
    # 11.2.2 / 12.3: a DATE column compared with a string constant compares as dates
    # (aggregated_billing_project_user_resources_by_date_v3.billing_date)
    db = DB()
    db.setup('CREATE TABLE t (d DATE NOT NULL, k INT, `usage` BIGINT, PRIMARY KEY (d, k))',
             "INSERT INTO t VALUES ('2023-11-13', 1, 5), (CAST(UTC_DATE() AS DATE), 1, 7)")
    db.check("SELECT `usage` FROM t WHERE d = '2023-11-14'", 7)
    db.check("SELECT COUNT(*) FROM t WHERE d >= '2023-11-01' AND d <= '2023-11-13'", 1)
    db.check("SELECT d FROM t ORDER BY d DESC LIMIT 1", datetime.date(2023, 11, 14))
    db.check_affected("INSERT INTO t VALUES ('2023-11-14', 1, 3) ON DUPLICATE KEY UPDATE `usage` = `usage` + 3", 2)
    db.check("SELECT `usage` FROM t WHERE d = %s", 10, params=(datetime.date(2023, 11, 14),))


@case()
def test_json_functions_used_by_front_end():
    # 12.18 JSON Functions: JSON_EXTRACT returns NULL for a missing path / NULL document; JSON_OBJECTAGG over
    # no rows is NULL; JSON_UNQUOTE strips the quotes
    db = DB()
    db.setup('CREATE TABLE a (id INT, k VARCHAR(10), v TEXT)', "INSERT INTO a VALUES (1, 'x', '1'), (1, 'y', 'two')")
    db.check("""SELECT JSON_EXTRACT('{"a": {"b": 5}}', '$.a.b')""", '5')
    db.check("""SELECT JSON_EXTRACT('{"a": 1}', '$.zz')""", None)
    db.check("SELECT JSON_EXTRACT(NULL, '$.a')", None)
    db.check("""SELECT JSON_UNQUOTE(JSON_EXTRACT('{"a": "str"}', '$.a'))""", 'str')
    db.check("""SELECT JSON_EXTRACT('[{"exit": 3}]', '$[0].exit')""", '3')
    db.check('SELECT JSON_OBJECTAGG(k, v) FROM a WHERE id = 99', None)
    r = db.check_ok('SELECT JSON_OBJECTAGG(k, v) FROM a WHERE id = 1')
    if r is not None:
        import json
        try:
            got = json.loads(r.rows[0][0])
        except Exception as e:  # noqa: BLE001
            got = repr(e)
        if got != {'x': '1', 'y': 'two'}:
            note('JSON_OBJECTAGG(k, v)', "{'x': '1', 'y': 'two'}", repr(got))


@case(optional=True)
def test_json_contains_quote():
    # 12.18.3 Functions That Search JSON Values: JSON_CONTAINS(target, candidate); 12.18.2 JSON_QUOTE
    # (batch/utils.py: JSON_CONTAINS(users, JSON_QUOTE(%s)))
    db = DB()
    db.check("""SELECT JSON_CONTAINS('["alice", "bob"]', JSON_QUOTE('bob'))""", 1)
    db.check("""SELECT JSON_CONTAINS('["alice", "bob"]', JSON_QUOTE('carol'))""", 0)


# =====================================================================================================
# runner
# =====================================================================================================

# Cases in which minimysql is KNOWN to differ from MySQL 8.0 (details: DIVERGENCES.md next to this file).
# name -> one-line reason + why no repository SQL (latest /repo/batch/sql routines, /repo/batch/batch Python SQL) can
# observe it.  A listed case that fails is reported as KNOWN-DIVERGENCE (exit 0); one that passes as FIXED?.
KNOWN_DIVERGENCES = {
    'test_division_scale_is_four_digits':
        "`/` keeps 28 digits instead of scale+4 (1/3 = 0.3333); no repository SQL uses `/` or AVG",
    'test_cast_unsigned':
        "CAST(-1 AS UNSIGNED) stays -1 instead of wrapping to 2^64-1; schema has no UNSIGNED columns, SQL only casts AS SIGNED",
    'test_bigint_overflow_is_error':
        "integers are unbounded, no error 1690; repository values (msec * mcpu sums) stay far below 2^63",
    'test_like_on_cs_column_is_case_sensitive':
        "LIKE always ignores case, even on a _cs column; repository LIKEs are on job attribute key/value and instance_name (ci)",
    'test_default_collation_accent_insensitive':
        "default collation modelled as casefold only ('e' != 'é'); only accented user/project/attribute names could observe it",
    'test_group_by_and_distinct_on_cs_column':
        "GROUP BY/DISTINCT/COUNT(DISTINCT) fold case on _cs columns; no repository SQL groups or dedups on name_cs/user_cs",
    'test_enum_column':
        "ENUM keeps the inserted lettercase ('CLOSED') instead of the declared one; repository code always writes declared lowercase values",
    'test_enum_sorts_by_index':
        "ORDER BY an ENUM sorts alphabetically, not by member index; no ORDER BY on billing_projects.status / job_groups.state",
    'test_coalesce_sum_zero_is_decimal':
        "COALESCE(SUM(x), 0) over no rows returns int 0, MySQL Decimal('0') / 0.0; driver SQL wraps it in CAST(.. AS SIGNED), "
        "front-end `cost` only differs as 0 vs 0.0",
    'test_union_order_limit_and_parenthesised_parts':
        "trailing ORDER BY/LIMIT of an unparenthesised UNION binds to the last SELECT; the only repository UNIONs (pool.py) "
        "are fully parenthesised",
    'test_integer_column_out_of_range':
        "no range check (error 1264) on INT/TINYINT columns; repository values are small counters, ids and tokens",
    'test_timestamp_default_and_on_update':
        "ON UPDATE CURRENT_TIMESTAMP ignored; only latest_product_versions.time_updated has it and nothing reads it",
    'test_foreign_key_parent_key_update_restricted':
        "updating a referenced parent key is not rejected (1451); no repository SQL updates a referenced key column",
    'test_cascade_delete_does_not_fire_triggers':
        "ON DELETE CASCADE fires the child's DELETE triggers; the effective schema has no DELETE triggers",
    'test_exit_handler_leaves_declaring_block_only':
        "EXIT handler leaves the whole routine, not just its block; effective routines declare one CONTINUE NOT FOUND handler only",
    'test_handler_specificity_errno_over_sqlexception':
        "handler chosen by declaration order, not errno > SQLSTATE > SQLEXCEPTION; no effective routine declares competing handlers",
    'test_signal_caught_by_sqlexception_handler':
        "SIGNAL bypasses condition handlers; the only SIGNAL (jobs_before_insert) runs with no handler in scope",
    'test_function_return_is_coerced_to_declared_type':
        "RETURN value not coerced to the RETURNS type; the three repository functions return booleans from EXISTS / AND / OR",
    'test_procedure_error_leaves_transaction_open':
        "an error escaping a CALL undoes the procedure's earlier writes; MySQL keeps them pending in the open transaction - "
        "gear's Transaction always ROLLBACKs on the exception, so the end state is the same for every CALL site",
    'test_procedure_statements_autocommit_individually':
        "in autocommit mode a failed CALL undoes earlier statements of the procedure; every repository access runs inside an "
        "explicit START TRANSACTION (gear Transaction / the procedures themselves)",
    'test_before_insert_trigger_sees_zero_auto_increment':
        "NEW.<auto_increment> in BEFORE INSERT is the generated id instead of 0; jobs_before_insert does not read an auto column",
}


def main(argv=None):
    only = set((argv or sys.argv)[1:])
    passed = failed = known = 0
    uncertain, unsupported, fixed = [], [], []
    for c in CASES:
        name = c.__name__
        if only and name not in only:
            continue
        try:
            c()
            passed += 1
            if name in KNOWN_DIVERGENCES:
                fixed.append(f'FIXED? {name}')
        except Mismatch as e:
            if c.uncertain:
                uncertain.append(f'UNCERTAIN {name}: {e}')
            elif name in KNOWN_DIVERGENCES:
                known += 1
                print(f'KNOWN-DIVERGENCE {name}: {KNOWN_DIVERGENCES[name]}')
            else:
                failed += 1
                print(f'FAILED {name}: {e}')
        except Rejected as e:
            if c.optional:
                unsupported.append(f'UNSUPPORTED {name}: {e}')
            else:
                failed += 1
                print(f'FAILED {name}: interpreter rejects valid MySQL 8.0: {e}')
        except Exception as e:  # noqa: BLE001
            failed += 1
            print(f'FAILED {name}: expected normal completion :: got {type(e).__name__}: {e}')
    for line in fixed + uncertain + unsupported:
        print(line)
    stale = sorted(set(KNOWN_DIVERGENCES) - {c.__name__ for c in CASES})
    for n in stale:
        failed += 1
        print(f'FAILED {n}: listed in KNOWN_DIVERGENCES but no such case')
    print(f'({len(CASES)} cases; {len(unsupported)} optional constructs unsupported, not counted)')
    print(f'{passed} passed, {known} known divergences, {len(uncertain)} uncertain, {failed} failed')
    return 1 if failed else 0


if __name__ == '__main__':
    sys.exit(main())
