class MySQLError(Exception):
    """server-side error: errno + message (+ sqlstate); mapped to pymysql classes by the fake driver."""

    def __init__(self, errno, msg, sqlstate='HY000'):
        super().__init__(errno, msg)
        self.errno = errno
        self.msg = msg
        self.sqlstate = sqlstate


class NotFound(Exception):
    """internal: NOT FOUND condition (no data) inside routines."""
