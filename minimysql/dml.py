"""INSERT / UPDATE / DELETE compilation, triggers, constraints."""
from .errors import MySQLError
from .exprs import Env, Frame, Scope, Source
from .lexer import UnsupportedSQL
from .query import _multisort, conjuncts
from .storage import coerce
from .values import compare, truth


def _same(a, b):
    if a is None or b is None:
        return a is None and b is None
    if type(a) is type(b):
        return a == b
    try:
        return compare(a, b, True) == 0
    except TypeError:
        return False


class DMLMixin:
    # ---- helpers --------------------------------------------------------------------------------
    def _default_value(self, t, col, rt):
        if col.default is not None:
            if col.default[0] == 'func' and col.default[1] in ('CURRENT_TIMESTAMP', 'NOW'):
                return rt.eng.utcnow().replace(microsecond=0)
            f = self.c_expr(Scope(), col.default)
            return coerce(col, f(Env([], None, rt)))
        return None

    def _check_row(self, t, row):
        for c, v in zip(t.cols, row):
            if v is None and c.notnull:
                raise MySQLError(1048, f"Column '{c.name}' cannot be null", '23000')

    def _check_fks(self, t, row):
        for fcols, rt_name, rcols, _ondel in t.fks:
            vals = [row[i] for i in fcols]
            if any(v is None for v in vals):
                continue
            ref = self.tables.get(rt_name)
            if ref is None:
                continue
            idxs = tuple(ref.colidx[c] for c in rcols)
            order = sorted(range(len(idxs)), key=lambda k: idxs[k])
            cols_t = tuple(idxs[k] for k in order)
            from .storage import key_norm
            key = tuple(key_norm(ref.cols[idxs[k]], vals[k]) for k in order)
            if not ref.lookup(cols_t, key):
                raise MySQLError(1452, f'Cannot add or update a child row: a foreign key constraint fails '
                                       f'(`{t.name}` -> `{ref.name}`)', '23000')

    def fire(self, t, timing, event, rt, new, old):
        trigs = t.triggers.get((timing, event))
        if not trigs:
            return new
        for trig in trigs:
            new = self.run_trigger(trig, rt, new, old)
        return new

    def _delete_row(self, t, rid, rt):
        row = t.rows.get(rid)
        if row is None:
            return False
        self.fire(t, 'BEFORE', 'DELETE', rt, None, row)
        # referential actions
        for child, (fcols, _rt, rcols, ondel) in t.children:
            pvals = [row[t.colidx[c]] for c in rcols]
            if any(v is None for v in pvals):
                continue
            from .storage import key_norm
            order = sorted(range(len(fcols)), key=lambda k: fcols[k])
            cols_t = tuple(fcols[k] for k in order)
            key = tuple(key_norm(child.cols[fcols[k]], pvals[k]) for k in order)
            kids = child.lookup(cols_t, key)
            if not kids:
                continue
            if ondel == 'CASCADE':
                for kid in kids:
                    self._delete_row(child, kid, rt)
            elif ondel == 'SET NULL':
                for kid in kids:
                    nr = list(child.rows[kid])
                    for i in fcols:
                        nr[i] = None
                    child.update(kid, nr, rt.sess.journal)
            else:
                raise MySQLError(1451, f'Cannot delete or update a parent row: a foreign key constraint fails '
                                       f'(`{child.name}`)', '23000')
        if rid in t.rows:
            t.delete(rid, rt.sess.journal)
            self.fire(t, 'AFTER', 'DELETE', rt, None, row)
            return True
        return False

    def _apply_update(self, t, rid, new, rt):
        """BEFORE trigger, constraints, write, AFTER trigger.  returns True if the stored row changed."""
        old = t.rows[rid]
        new = self.fire(t, 'BEFORE', 'UPDATE', rt, new, old)
        new = [coerce(c, v) for c, v in zip(t.cols, new)]
        self._check_row(t, new)
        changed = not all(_same(a, b) for a, b in zip(old, new))
        if changed:
            other, keyname = t.find_conflict(new, exclude=rid)
            if other is not None:
                raise MySQLError(1062, f"Duplicate entry for key '{t.name}.{keyname}'", '23000')
            # only re-check foreign keys whose columns changed
            for fk in t.fks:
                if any(not _same(old[i], new[i]) for i in fk[0]):
                    self._check_fks_one(t, new, fk)
            t.update(rid, new, rt.sess.journal)
        self.fire(t, 'AFTER', 'UPDATE', rt, new, old)
        return changed

    def _check_fks_one(self, t, row, fk):
        saved = t.fks
        t.fks = [fk]
        try:
            self._check_fks(t, row)
        finally:
            t.fks = saved

    # ---- INSERT ---------------------------------------------------------------------------------
    def c_insert(self, scope, node):
        _, tname, cols, rows, query, odku, ignore, replace, row_alias = node
        if replace:
            raise UnsupportedSQL('REPLACE')
        t = self.table(tname)
        if cols is None:
            col_idx = list(range(len(t.cols)))
        else:
            col_idx = []
            for c in cols:
                if c.lower() not in t.colidx:
                    raise MySQLError(1054, f"Unknown column '{c}' in 'field list'", '42S22')
                col_idx.append(t.colidx[c.lower()])
        vscope = Scope(scope)
        row_fns = None
        q = None
        src_scope = None
        if rows is not None:
            row_fns = []
            for r in rows:
                if len(r) != len(col_idx):
                    raise MySQLError(1136, "Column count doesn't match value count", '21S01')
                row_fns.append([None if e[0] == 'default' else self.c_expr(vscope, e) for e in r])
        else:
            q = self.c_query(scope, query)
            if len(q.colnames) != len(col_idx):
                raise MySQLError(1136, "Column count doesn't match value count", '21S01')
            src_scope = getattr(q, 'scope', None)
        odku_fns = None
        if odku is not None:
            # scope: target row (source 0), then -- for INSERT ... SELECT -- the select's source rows
            oscope = Scope(scope)
            oscope.sources.append(Source(t.name, [c.lname for c in t.cols], t))
            holder = [None]
            oscope.values_row = (t, holder)
            nsel = 0
            if src_scope is not None and src_scope.sources and query[0] == 'select' and not query[5] \
                    and not src_scope.has_agg and not query[1]:
                for s in src_scope.sources:
                    oscope.sources.append(Source('\0sel' if s.alias == t.lname else s.alias, s.cols, s.table))
                nsel = len(src_scope.sources)
            if row_alias:
                oscope.sources.append(Source(row_alias, [c.lname for c in t.cols], t))
            odku_fns = []
            for cname, e in odku:
                if cname.lower() not in t.colidx:
                    raise MySQLError(1054, f"Unknown column '{cname}' in 'field list'", '42S22')
                try:
                    f = self.c_expr(oscope, e)
                except MySQLError as err:
                    if err.errno != 1052:
                        raise
                    # unqualified name present in both target and select source: MySQL resolves to the target
                    o2 = Scope(scope)
                    o2.sources.append(oscope.sources[0])
                    o2.values_row = oscope.values_row
                    f0 = self.c_expr(o2, e)
                    f = f0
                odku_fns.append((t.colidx[cname.lower()], f))
        auto_idx = next((i for i, c in enumerate(t.cols) if c.auto), None)
        from .query import _has_node
        has_uassign = query is not None and _has_node(query, ('uassign',))

        def insert_one(rt, vals, sel_rows):
            """vals: list aligned with col_idx (None for DEFAULT marker objects handled before)."""
            row = [None] * len(t.cols)
            given = set(col_idx)
            for i, v in zip(col_idx, vals):
                row[i] = v
            for i, c in enumerate(t.cols):
                if i not in given or row[i] is _DEFAULT:
                    if c.has_default or c.default is not None:
                        row[i] = self._default_value(t, c, rt)
                    elif c.auto:
                        row[i] = None
                    elif c.notnull:
                        raise MySQLError(1364, f"Field '{c.name}' doesn't have a default value")
                    else:
                        row[i] = None
            gen_auto = False
            if auto_idx is not None:
                if row[auto_idx] is None or row[auto_idx] == 0:
                    row[auto_idx] = t.auto_next
                    gen_auto = True
            row = [coerce(c, v) for c, v in zip(t.cols, row)]
            row = self.fire(t, 'BEFORE', 'INSERT', rt, row, None)
            row = [coerce(c, v) for c, v in zip(t.cols, row)]
            self._check_row(t, row)
            if auto_idx is not None and row[auto_idx] is not None and row[auto_idx] >= t.auto_next:
                t.auto_next = row[auto_idx] + 1
            other, keyname = t.find_conflict(row)
            if other is not None:
                if odku_fns is not None:
                    holder[0] = row
                    cur = t.rows[other]
                    new = list(cur)
                    erows = [new] + (list(sel_rows) if nsel else []) + ([row] if row_alias else [])
                    env = Env(erows, None, rt)
                    for j, f in odku_fns:
                        new[j] = f(env)
                    changed = self._apply_update(t, other, new, rt)
                    return 2 if changed else 0
                if ignore:
                    return 0
                raise MySQLError(1062, f"Duplicate entry '{_keystr(t, row)}' for key '{t.name}.{keyname}'", '23000')
            try:
                self._check_fks(t, row)
            except MySQLError:
                if ignore:
                    return 0
                raise
            t.insert(row, rt.sess.journal)
            if gen_auto and rt.sess.pending_insert_id is None:
                rt.sess.pending_insert_id = row[auto_idx]
            self.fire(t, 'AFTER', 'INSERT', rt, row, None)
            return 1

        def run(rt):
            rt.sess.pending_insert_id = None
            n = 0
            if row_fns is not None:
                env = Env([], None, rt)
                for fns in row_fns:
                    vals = [_DEFAULT if f is None else f(env) for f in fns]
                    n += insert_one(rt, vals, None)
            else:
                env = Env([], None, rt)
                snaps = None
                if has_uassign and odku_fns is not None:
                    rt.sess.uv_trace = snaps = []
                try:
                    if odku_fns is not None and nsel:
                        # need the select's source rows for ON DUPLICATE KEY UPDATE
                        pairs = self._select_with_sources(q, env)
                    else:
                        _c, rws = q(env)
                        pairs = [(list(vals), None) for vals in rws]
                finally:
                    rt.sess.uv_trace = None
                if snaps is not None and len(snaps) != len(pairs):
                    snaps = None
                for i, (vals, srows) in enumerate(pairs):
                    if snaps is not None:
                        rt.sess.uvars.update(snaps[i])
                    n += insert_one(rt, vals, srows)
            if rt.sess.pending_insert_id is not None:
                rt.sess.last_insert_id = rt.sess.pending_insert_id
                rt.sess.insert_id_for_client = rt.sess.pending_insert_id
            rt.sess.row_count = n
            return n
        return run

    def _select_with_sources(self, q, env):
        return q.with_sources(env)

    # ---- UPDATE ---------------------------------------------------------------------------------
    def c_update(self, scope, node):
        _, refs, assigns, where, order, limit = node
        sc = Scope(scope)
        flat = []
        self._flatten_from(refs, flat)
        where_conj = conjuncts(where)
        steps = []
        for idx, (kind, fac, on) in enumerate(flat):
            steps.append(self._plan_source(sc, kind, fac, on, where_conj, idx == 0))
        nsrc = len(sc.sources)
        where_fn = self.c_expr(sc, where) if where is not None else None
        # resolve assignment targets
        targets = []  # (source idx, col idx, fn or None for DEFAULT)
        for (qual, cname), e in assigns:
            hits = []
            for i, src in enumerate(sc.sources):
                if src.table is None:
                    continue
                if qual is not None and src.alias != qual.lower():
                    continue
                if cname.lower() in src.cols:
                    hits.append(i)
            if not hits:
                raise MySQLError(1054, f"Unknown column '{cname}' in 'field list'", '42S22')
            if len(hits) > 1:
                raise MySQLError(1052, f"Column '{cname}' in field list is ambiguous", '23000')
            i = hits[0]
            j = sc.sources[i].cols.index(cname.lower())
            f = None if e[0] == 'default' else self.c_expr(sc, e)
            targets.append((i, j, f))
        tgt_sources = sorted({i for i, _, _ in targets})
        single = nsrc == 1
        order_fns = [(self.c_expr(sc, e), d) for e, d in order] if order else None
        lim = self._c_limit(sc, (limit, None)) if limit is not None else None
        tables = [s.table for s in sc.sources]

        def run(rt):
            env0 = Env([], None, rt)
            combos = [[]]
            for si, (fetch, on_fn, is_left) in enumerate(steps):
                new = []
                for combo in combos:
                    base = combo + [None] * (nsrc - len(combo))
                    e = Env(base, env0, rt)
                    matched = False
                    for r in fetch(e):
                        base[si] = r
                        if on_fn is None or truth(on_fn(e)):
                            new.append(combo + [r])
                            matched = True
                    if not matched and is_left:
                        new.append(combo + [None])
                combos = new
            if where_fn is not None:
                combos = [c for c in combos if truth(where_fn(Env(c, env0, rt)))]
            if order_fns:
                envs = _multisort([Env(c, env0, rt) for c in combos], order_fns)
                combos = [e.rows for e in envs]
            if lim is not None:
                combos = lim(env0, combos)
            n_changed = 0
            if single:
                t = tables[0]
                # map row objects back to rowids (rows are never mutated in place)
                rids = _rowids(t, [c[0] for c in combos])
                for rid in rids:
                    cur = t.rows.get(rid)
                    if cur is None:
                        continue
                    new = list(cur)
                    env = Env([new], env0, rt)  # left-to-right: earlier assignments visible
                    for _i, j, f in targets:
                        new[j] = f(env) if f is not None else self._default_value(t, t.cols[j], rt)
                    if self._apply_update(t, rid, new, rt):
                        n_changed += 1
            else:
                done = {i: set() for i in tgt_sources}
                plan = []
                for c in combos:
                    env = Env(c, env0, rt)
                    vals = [(i, j, f(env) if f is not None else None) for i, j, f in targets]
                    plan.append((c, vals))
                for i in tgt_sources:
                    t = tables[i]
                    idmap = {id(r): rid for rid, r in t.rows.items()}
                    for c, vals in plan:
                        r = c[i]
                        if r is None:
                            continue
                        rid = idmap.get(id(r))
                        if rid is None or rid in done[i] or rid not in t.rows:
                            continue
                        done[i].add(rid)
                        new = list(t.rows[rid])
                        for ii, j, v in vals:
                            if ii == i:
                                new[j] = v
                        if self._apply_update(t, rid, new, rt):
                            n_changed += 1
            rt.sess.row_count = n_changed
            return n_changed
        return run

    # ---- DELETE ---------------------------------------------------------------------------------
    def c_delete(self, scope, node):
        _, refs, where, order, limit, targets = node
        sc = Scope(scope)
        flat = []
        self._flatten_from(refs, flat)
        where_conj = conjuncts(where)
        steps = []
        for idx, (kind, fac, on) in enumerate(flat):
            steps.append(self._plan_source(sc, kind, fac, on, where_conj, idx == 0))
        nsrc = len(sc.sources)
        where_fn = self.c_expr(sc, where) if where is not None else None
        if targets is None:
            if nsrc != 1:
                raise UnsupportedSQL('multi-table DELETE without target list')
            tidx = [0]
        else:
            tidx = []
            for tn in targets:
                hit = [i for i, s in enumerate(sc.sources) if s.alias == tn.lower()]
                if not hit:
                    raise MySQLError(1109, f"Unknown table '{tn}' in MULTI DELETE")
                tidx.append(hit[0])
        order_fns = [(self.c_expr(sc, e), d) for e, d in order] if order else None
        lim = self._c_limit(sc, (limit, None)) if limit is not None else None
        tables = [s.table for s in sc.sources]

        def run(rt):
            env0 = Env([], None, rt)
            combos = [[]]
            for si, (fetch, on_fn, is_left) in enumerate(steps):
                new = []
                for combo in combos:
                    base = combo + [None] * (nsrc - len(combo))
                    e = Env(base, env0, rt)
                    matched = False
                    for r in fetch(e):
                        base[si] = r
                        if on_fn is None or truth(on_fn(e)):
                            new.append(combo + [r])
                            matched = True
                    if not matched and is_left:
                        new.append(combo + [None])
                combos = new
            if where_fn is not None:
                combos = [c for c in combos if truth(where_fn(Env(c, env0, rt)))]
            if order_fns:
                envs = _multisort([Env(c, env0, rt) for c in combos], order_fns)
                combos = [e.rows for e in envs]
            if lim is not None:
                combos = lim(env0, combos)
            n = 0
            for i in tidx:
                t = tables[i]
                for rid in _rowids(t, [c[i] for c in combos if c[i] is not None]):
                    if self._delete_row(t, rid, rt):
                        n += 1
            rt.sess.row_count = n
            return n
        return run


class _Default:
    def __repr__(self):
        return 'DEFAULT'


_DEFAULT = _Default()


def _rowids(t, rows):
    idmap = {id(r): rid for rid, r in t.rows.items()}
    out = []
    seen = set()
    for r in rows:
        rid = idmap.get(id(r))
        if rid is not None and rid not in seen:
            seen.add(rid)
            out.append(rid)
    return out


def _keystr(t, row):
    if t.pk is None:
        return ''
    return '-'.join(str(row[i]) for i in t.pk)
