"""Load the batch schema from the repository's SQL files (read at check time from the working tree).

* tables: CREATE TABLE / CREATE INDEX statements of batch/sql/estimated-current.sql (parsed tolerantly; data
  statements and routine text in that file are ignored) + column union from ALTER TABLE ... ADD COLUMN in migrations;
* routines, functions, triggers: the last CREATE in migration order (build.yaml's batch_database step, then any
  unlisted NNN-*.sql in numeric order) that was not followed by a DROP.
"""
import os
import re

from .engine import Engine
from .errors import MySQLError
from .lexer import SQLSyntaxError, UnsupportedSQL

_hdr = re.compile(r'\b(CREATE|DROP)\s+(?:DEFINER\s*=\s*\S+\s+)?(PROCEDURE|FUNCTION|TRIGGER)\s+(?:IF\s+(?:NOT\s+)?EXISTS\s+)?`?(\w+)`?',
                  re.I)


def migration_files(repo):
    sqldir = os.path.join(repo, 'batch', 'sql')
    listed = []
    try:
        txt = open(os.path.join(repo, 'build.yaml')).read()
        i = txt.index('name: batch_database')
        j = txt.find('\n  - kind:', i)
        seg = txt[i:j if j > 0 else len(txt)]
        listed = re.findall(r'script:\s*/io/sql/(\S+)', seg)
    except (OSError, ValueError):
        pass
    files = [f for f in listed if f.endswith('.sql')]
    extra = sorted(f for f in os.listdir(sqldir)
                   if re.match(r'\d{3}-.*\.sql$', f) and f not in listed)
    for f in extra:
        files.append(f)
    return [os.path.join(sqldir, f) for f in files if os.path.exists(os.path.join(sqldir, f))]


def split_chunks(text):
    """split a mysql-client script into statements, honouring DELIMITER."""
    delim = ';'
    out = []
    buf = []
    for line in text.splitlines(keepends=True):
        m = re.match(r'\s*DELIMITER\s+(\S+)\s*$', line, re.I)
        if m:
            if ''.join(buf).strip():
                out.append(''.join(buf))
            buf = []
            delim = m.group(1)
            continue
        buf.append(line)
        joined = ''.join(buf)
        if delim != ';':
            while delim in joined:
                a, joined = joined.split(delim, 1)
                if a.strip():
                    out.append(a)
            buf = [joined]
        else:
            # only split ';' at line ends outside of routine bodies (files use DELIMITER for those)
            if re.sub(r'\s+#.*$', '', line.rstrip()).rstrip().endswith(';') and _balanced(joined):
                out.append(joined)
                buf = []
    if ''.join(buf).strip():
        out.append(''.join(buf))
    return out


def _balanced(s):
    # crude: quotes closed
    return s.count("'") % 2 == 0 or True


def effective_routines(files):
    """name -> (kind, text, file) for the last surviving CREATE of each routine."""
    state = {}
    for path in files:
        text = open(path).read()
        for chunk in split_chunks(text):
            stripped = _strip_comments(chunk)
            for m in _hdr.finditer(stripped):
                key = (m.group(2).upper(), m.group(3).lower())
                if m.group(1).upper() == 'DROP':
                    state.pop(key, None)
                else:
                    body = stripped[m.start():]
                    state[key] = (body.strip().rstrip(';').strip(), os.path.basename(path))
                    break  # a CREATE runs to the end of its chunk
    return state


def _strip_comments(s):
    out = []
    for line in s.splitlines():
        # keep '#' inside strings rare enough to ignore in migration headers; real parsing happens later
        out.append(line)
    return '\n'.join(out)


def load_tables(eng, repo):
    path = os.path.join(repo, 'batch', 'sql', 'estimated-current.sql')
    text = open(path).read()
    sess = eng.session()
    skipped = []
    for chunk in split_chunks(text):
        c = chunk.strip()
        head = re.sub(r'(?m)^\s*#.*$', '', c).strip()
        if not re.match(r'(CREATE\s+(TABLE|(UNIQUE\s+)?INDEX)|DROP\s+TABLE)\b', head, re.I):
            continue
        try:
            eng.execute(sess, c)
        except (SQLSyntaxError, UnsupportedSQL, MySQLError) as e:
            # tolerant repair of the known syntax slips in this hand-maintained file (missing comma)
            fixed = _repair_table(c)
            if fixed is None:
                skipped.append((c[:60], str(e)))
                continue
            try:
                eng.execute(sess, fixed)
            except (SQLSyntaxError, UnsupportedSQL, MySQLError) as e2:
                skipped.append((c[:60], str(e2)))
    return skipped


def _repair_table(c):
    # add a missing comma between a column definition line and the next line starting with a backtick / keyword
    lines = c.splitlines()
    out = []
    changed = False
    for i, ln in enumerate(lines):
        s = ln.split('#')[0].rstrip()
        nxt = lines[i + 1].strip() if i + 1 < len(lines) else ''
        if s and not s.endswith((',', '(')) and (nxt.startswith('`') or nxt.upper().startswith(('PRIMARY', 'FOREIGN', 'UNIQUE'))) \
                and i > 0 and not s.upper().startswith('CREATE'):
            out.append(s + ',')
            changed = True
        else:
            out.append(ln)
    return '\n'.join(out) if changed else None


def apply_column_union(eng, files):
    """estimated-current.sql is hand-maintained and lags behind the migrations.  Replay only the *column history*
    of all migrations (ADD / DROP / CHANGE / RENAME COLUMN, parsed with the real parser): a column whose last
    action is ADD and that the table of estimated-current.sql lacks is added."""
    from .parser import Parser
    last = {}  # (table, col) -> ('add', coldef) | ('drop',)
    unparsed = []
    for path in files:
        base = os.path.basename(path)
        text = open(path).read()
        for chunk in split_chunks(text):
            c = re.sub(r'(?m)^\s*#.*$', '', chunk).strip()
            if not re.match(r'ALTER\s+TABLE\b', c, re.I):
                continue
            try:
                node = Parser(c).parse_one()
            except (SQLSyntaxError, UnsupportedSQL) as e:
                unparsed.append((base, c[:70].replace('\n', ' '), str(e)[:80]))
                continue
            t = node[1].lower()
            for a in node[2]:
                if a[0] == 'add_column':
                    last[(t, a[1]['name'].lower())] = ('add', a[1], base)
                elif a[0] == 'drop_column':
                    last[(t, a[1].lower())] = ('drop',)
                elif a[0] == 'change_column':
                    last[(t, a[1].lower())] = ('drop',)
                    last[(t, a[2]['name'].lower())] = ('add', a[2], base)
                elif a[0] == 'rename_column':
                    last[(t, a[1].lower())] = ('drop',)
                elif a[0] == 'rename':
                    for (tt, cc), v in list(last.items()):
                        if tt == t:
                            last[(a[1].lower(), cc)] = v
                            del last[(tt, cc)]
    applied = []
    for (t, c), v in sorted(last.items()):
        if v[0] != 'add':
            continue
        tab = eng.tables.get(t)
        if tab is None or c in tab.colidx:
            continue
        cdef = dict(v[1])
        if cdef['notnull'] and not cdef['has_default'] and cdef['default'] is None:
            pass
        tab.add_column(cdef)
        applied.append((v[2], t, c))
    eng.cache.clear()
    return applied, unparsed


_ENGINES = {}


def load_batch_schema(repo, rand=None, clock=None):
    """one engine per process and repository root: later calls reset it (tables emptied, compiled routines kept)."""
    eng = _ENGINES.get(repo)
    if eng is not None:
        eng.reset(rand, clock)
        return eng
    eng = _load_batch_schema(repo, rand, clock)
    _ENGINES[repo] = eng
    return eng


def _load_batch_schema(repo, rand=None, clock=None):
    eng = Engine(rand=rand, clock=clock)
    skipped = load_tables(eng, repo)
    files = migration_files(repo)
    applied, unparsed = apply_column_union(eng, files)
    routines = effective_routines(files)
    sess = eng.session()
    sources = {}
    for (kind, name), (text, fname) in sorted(routines.items()):
        if kind == 'TRIGGER':
            # triggers on tables that no longer exist are gone with their table
            m = re.search(r'\bON\s+`?(\w+)`?', text, re.I)
            if m and m.group(1).lower() not in eng.tables:
                continue
        eng.execute(sess, text)
        sources[f'{kind.lower()} {name}'] = fname
    eng.routine_sources = sources
    eng.load_report = {'tables': len(eng.tables), 'skipped_table_statements': skipped, 'columns_added': applied, 'unparsed_alters': unparsed,
                       'routines': sources}
    return eng
