"""Recursive-descent / precedence-climbing parser for the MySQL subset. AST nodes are tuples."""
from .lexer import (T_EOF, T_IDENT, T_NUM, T_OP, T_PARAM, T_QIDENT, T_STR, T_UVAR, SQLSyntaxError, UnsupportedSQL,
                    tokenize)

RESERVED_STOP = {
    'FROM', 'WHERE', 'GROUP', 'HAVING', 'ORDER', 'LIMIT', 'UNION', 'ON', 'JOIN', 'INNER', 'LEFT', 'RIGHT', 'CROSS',
    'STRAIGHT_JOIN', 'NATURAL', 'FOR', 'LOCK', 'INTO', 'SET', 'VALUES', 'AS', 'AND', 'OR', 'XOR', 'NOT', 'THEN', 'ELSE',
    'ELSEIF', 'END', 'WHEN', 'DO', 'USING', 'IS', 'IN', 'LIKE', 'BETWEEN', 'DIV', 'MOD', 'ASC', 'DESC', 'SELECT',
    'INSERT', 'UPDATE', 'DELETE', 'CALL', 'IF', 'CASE', 'WHILE', 'LOOP', 'LEAVE', 'DECLARE', 'BEGIN', 'RETURN',
    'COLLATE', 'FORCE', 'USE', 'IGNORE', 'WINDOW', 'OVER', 'PARTITION', 'LATERAL', 'INTERVAL', 'REGEXP', 'RLIKE',
    'OFFSET', 'WITH', 'EXISTS', 'DISTINCT', 'ALL', 'UNTIL', 'REPEAT', 'ITERATE', 'OPEN', 'FETCH', 'CLOSE', 'SIGNAL',
    'COMMIT', 'ROLLBACK', 'START', 'DUPLICATE', 'KEY', 'DEFAULT', 'TRUE', 'FALSE', 'NULL',
}
# identifiers that may be used as column names even though they look like keywords
SOFT = {'KEY', 'DEFAULT', 'DUPLICATE', 'START', 'COMMIT', 'ROLLBACK', 'OPEN', 'CLOSE', 'OFFSET', 'REPEAT', 'UNTIL'}


class Parser:
    def __init__(self, sql):
        self.sql = sql
        self.toks = tokenize(sql)
        self.i = 0
        self.n_params = 0

    # -- token helpers -----------------------------------------------------------------------
    @property
    def tok(self):
        return self.toks[self.i]

    def peek(self, k=1):
        j = min(self.i + k, len(self.toks) - 1)
        return self.toks[j]

    def adv(self):
        t = self.toks[self.i]
        self.i += 1
        return t

    def is_kw(self, *kws):
        t = self.tok
        return t.t == T_IDENT and t.u in kws

    def peek_kw(self, k, *kws):
        t = self.peek(k)
        return t.t == T_IDENT and t.u in kws

    def accept_kw(self, *kws):
        if self.is_kw(*kws):
            return self.adv().u
        return None

    def expect_kw(self, *kws):
        if not self.is_kw(*kws):
            self.err(f'expected {"/".join(kws)}')
        return self.adv().u

    def is_op(self, *ops):
        t = self.tok
        return t.t == T_OP and t.v in ops

    def accept_op(self, *ops):
        if self.is_op(*ops):
            return self.adv().v
        return None

    def expect_op(self, op):
        if not self.is_op(op):
            self.err(f'expected {op!r}')
        return self.adv().v

    def err(self, msg):
        t = self.tok
        ctx = self.sql[max(0, t.pos - 60):t.pos + 60]
        raise SQLSyntaxError(f'{msg} at {t!r} near ...{ctx!r}...')

    def ident(self):
        t = self.tok
        if t.t == T_QIDENT:
            self.adv()
            return t.v
        if t.t == T_IDENT:
            self.adv()
            return t.v
        self.err('expected identifier')

    def at_end(self):
        return self.tok.t == T_EOF

    # -- statements --------------------------------------------------------------------------
    def parse_script(self):
        out = []
        while not self.at_end():
            if self.accept_op(';'):
                continue
            out.append(self.statement())
        return out

    def parse_one(self):
        st = self.statement()
        while self.accept_op(';'):
            pass
        if not self.at_end():
            self.err('trailing input')
        return st

    def statement(self):
        t = self.tok
        if t.t == T_OP and t.v == '(':
            return self.select_stmt()
        if t.t != T_IDENT:
            self.err('expected statement')
        u = t.u
        if u in ('SELECT', 'WITH'):
            return self.select_stmt()
        if u == 'INSERT' or u == 'REPLACE':
            return self.insert_stmt()
        if u == 'UPDATE':
            return self.update_stmt()
        if u == 'DELETE':
            return self.delete_stmt()
        if u == 'CALL':
            return self.call_stmt()
        if u == 'SET':
            return self.set_stmt()
        if u == 'START':
            self.adv()
            self.expect_kw('TRANSACTION')
            ro = False
            if self.accept_kw('READ'):
                ro = self.expect_kw('ONLY', 'WRITE') == 'ONLY'
            return ('start', ro)
        if u == 'BEGIN' and (self.peek().t == T_EOF or (self.peek().t == T_OP and self.peek().v == ';')
                             or self.peek_kw(1, 'WORK')):
            self.adv()
            self.accept_kw('WORK')
            return ('start', False)
        if u == 'BEGIN':
            return self.block(None)
        if u == 'COMMIT':
            self.adv()
            return ('commit',)
        if u == 'ROLLBACK':
            self.adv()
            return ('rollback',)
        if u == 'DECLARE':
            return self.declare_stmt()
        if u == 'IF':
            return self.if_stmt()
        if u == 'CASE':
            return self.case_stmt()
        if u == 'WHILE':
            return self.while_stmt(None)
        if u == 'LOOP':
            return self.loop_stmt(None)
        if u == 'REPEAT':
            return self.repeat_stmt(None)
        if u == 'LEAVE':
            self.adv()
            return ('leave', self.ident())
        if u == 'ITERATE':
            self.adv()
            return ('iterate', self.ident())
        if u == 'OPEN':
            self.adv()
            return ('open', self.ident())
        if u == 'CLOSE':
            self.adv()
            return ('close', self.ident())
        if u == 'FETCH':
            self.adv()
            self.accept_kw('NEXT')
            self.accept_kw('FROM')
            c = self.ident()
            self.expect_kw('INTO')
            vs = [self.ident()]
            while self.accept_op(','):
                vs.append(self.ident())
            return ('fetch', c, vs)
        if u == 'SIGNAL':
            return self.signal_stmt()
        if u == 'RETURN':
            self.adv()
            return ('return', self.expr())
        if u == 'CREATE':
            return self.create_stmt()
        if u == 'DROP':
            return self.drop_stmt()
        if u == 'ALTER':
            return self.alter_stmt()
        if u == 'LOCK' or u == 'UNLOCK':
            raise UnsupportedSQL('LOCK TABLES')
        if u == 'TRUNCATE':
            self.adv()
            self.accept_kw('TABLE')
            return ('delete', ('table', self.ident(), None), None, None, None, None)
        self.err(f'unsupported statement {u}')

    def labelled(self, label):
        u = self.tok.u
        if u == 'LOOP':
            return self.loop_stmt(label)
        if u == 'WHILE':
            return self.while_stmt(label)
        if u == 'REPEAT':
            return self.repeat_stmt(label)
        if u == 'BEGIN':
            return self.block(label)
        self.err('label must precede LOOP/WHILE/REPEAT/BEGIN')

    def stmt_list(self, *terminators):
        out = []
        while not self.is_kw(*terminators):
            if self.at_end():
                self.err(f'expected {terminators}')
            if self.accept_op(';'):
                continue
            # label?
            if self.tok.t in (T_IDENT, T_QIDENT) and self.peek().t == T_OP and self.peek().v == ':':
                label = self.ident()
                self.adv()
                out.append(self.labelled(label))
            else:
                out.append(self.statement())
            if not self.is_kw(*terminators):
                self.expect_op(';')
        return out

    def block(self, label):
        self.expect_kw('BEGIN')
        body = self.stmt_list('END')
        self.expect_kw('END')
        if label and self.tok.t in (T_IDENT,) and self.tok.v == label:
            self.adv()
        return ('block', label, body)

    def declare_stmt(self):
        self.expect_kw('DECLARE')
        if self.is_kw('CONTINUE', 'EXIT'):
            kind = self.adv().u
            self.expect_kw('HANDLER')
            self.expect_kw('FOR')
            conds = []
            while True:
                if self.accept_kw('NOT'):
                    self.expect_kw('FOUND')
                    conds.append('NOT FOUND')
                elif self.accept_kw('SQLEXCEPTION'):
                    conds.append('SQLEXCEPTION')
                elif self.accept_kw('SQLWARNING'):
                    conds.append('SQLWARNING')
                elif self.accept_kw('SQLSTATE'):
                    self.accept_kw('VALUE')
                    conds.append(('SQLSTATE', self.adv().v))
                else:
                    conds.append(('ERRNO', int(self.adv().v)))
                if not self.accept_op(','):
                    break
            body = self.statement()
            return ('declare_handler', kind, conds, body)
        names = [self.ident()]
        while self.accept_op(','):
            names.append(self.ident())
        if self.accept_kw('CURSOR'):
            self.expect_kw('FOR')
            q = self.select_stmt()
            return ('declare_cursor', names[0], q)
        if self.accept_kw('CONDITION'):
            raise UnsupportedSQL('DECLARE CONDITION')
        typ = self.type_spec()
        default = None
        if self.accept_kw('DEFAULT'):
            default = self.expr()
        return ('declare', names, typ, default)

    def if_stmt(self):
        self.expect_kw('IF')
        arms = []
        cond = self.expr()
        self.expect_kw('THEN')
        body = self.stmt_list('ELSEIF', 'ELSE', 'END')
        arms.append((cond, body))
        els = None
        while True:
            if self.accept_kw('ELSEIF'):
                cond = self.expr()
                self.expect_kw('THEN')
                body = self.stmt_list('ELSEIF', 'ELSE', 'END')
                arms.append((cond, body))
            elif self.accept_kw('ELSE'):
                els = self.stmt_list('END')
            else:
                break
        self.expect_kw('END')
        self.expect_kw('IF')
        return ('if', arms, els)

    def case_stmt(self):
        raise UnsupportedSQL('CASE statement')

    def while_stmt(self, label):
        self.expect_kw('WHILE')
        cond = self.expr()
        self.expect_kw('DO')
        body = self.stmt_list('END')
        self.expect_kw('END')
        self.expect_kw('WHILE')
        if label and self.tok.t == T_IDENT and self.tok.v == label:
            self.adv()
        return ('while', label, cond, body)

    def loop_stmt(self, label):
        self.expect_kw('LOOP')
        body = self.stmt_list('END')
        self.expect_kw('END')
        self.expect_kw('LOOP')
        if label and self.tok.t == T_IDENT and self.tok.v == label:
            self.adv()
        return ('loop', label, body)

    def repeat_stmt(self, label):
        self.expect_kw('REPEAT')
        body = self.stmt_list('UNTIL')
        self.expect_kw('UNTIL')
        cond = self.expr()
        self.expect_kw('END')
        self.expect_kw('REPEAT')
        return ('repeat', label, body, cond)

    def signal_stmt(self):
        self.expect_kw('SIGNAL')
        self.expect_kw('SQLSTATE')
        self.accept_kw('VALUE')
        state = self.adv().v
        msg = None
        errno = None
        if self.accept_kw('SET'):
            while True:
                k = self.ident().upper()
                self.expect_op('=')
                v = self.expr()
                if k == 'MESSAGE_TEXT':
                    msg = v
                elif k == 'MYSQL_ERRNO':
                    errno = v
                if not self.accept_op(','):
                    break
        return ('signal', state, msg, errno)

    def set_stmt(self):
        self.expect_kw('SET')
        assigns = []
        while True:
            t = self.tok
            if t.t == T_UVAR:
                self.adv()
                target = ('uvar', t.v)
            else:
                if self.is_kw('SESSION', 'GLOBAL', 'LOCAL') and self.peek().t in (T_IDENT, T_QIDENT):
                    self.adv()
                name = self.ident()
                if self.accept_op('.'):
                    target = ('qual', name, self.ident())
                else:
                    target = ('name', name)
            if not self.accept_op('=', ':='):
                self.err('expected = in SET')
            val = self.expr()
            assigns.append((target, val))
            if not self.accept_op(','):
                break
        return ('set', assigns)

    def call_stmt(self):
        self.expect_kw('CALL')
        name = self.ident()
        args = []
        if self.accept_op('('):
            if not self.is_op(')'):
                args.append(self.expr())
                while self.accept_op(','):
                    args.append(self.expr())
            self.expect_op(')')
        return ('call', name, args)

    # -- DDL ---------------------------------------------------------------------------------
    def type_spec(self):
        name = self.ident().upper()
        args = None
        if self.accept_op('('):
            args = []
            while not self.is_op(')'):
                t = self.adv()
                if t.t != T_OP:
                    args.append(t.v)
            self.expect_op(')')
        while self.is_kw('UNSIGNED', 'SIGNED', 'ZEROFILL'):
            self.adv()
        if self.is_kw('CHARACTER') and self.peek_kw(1, 'SET'):
            self.adv()
            self.adv()
            self.ident()
        if self.is_kw('CHARSET'):
            self.adv()
            self.ident()
        return (name, args)

    def create_stmt(self):
        self.expect_kw('CREATE')
        if self.accept_kw('DEFINER'):
            self.expect_op('=')
            self.adv()
        temp = bool(self.accept_kw('TEMPORARY'))
        unique = bool(self.accept_kw('UNIQUE'))
        what = self.expect_kw('TABLE', 'INDEX', 'PROCEDURE', 'FUNCTION', 'TRIGGER', 'EVENT')
        if what == 'TABLE':
            ine = False
            if self.accept_kw('IF'):
                self.expect_kw('NOT')
                self.expect_kw('EXISTS')
                ine = True
            name = self.ident()
            if self.accept_kw('AS') or self.is_kw('SELECT'):
                q = self.select_stmt()
                return ('create_table_as', name, q, temp)
            return self.create_table_body(name, ine, temp)
        if what == 'INDEX':
            iname = self.ident()
            self.expect_kw('ON')
            tname = self.ident()
            cols = self.index_cols()
            while not self.at_end() and not self.is_op(';'):
                self.adv()
            return ('create_index', iname, tname, cols, unique)
        if what == 'PROCEDURE':
            name = self.ident()
            params = self.routine_params(True)
            self.routine_chars()
            body = self.routine_body()
            return ('create_procedure', name, params, body)
        if what == 'FUNCTION':
            name = self.ident()
            params = self.routine_params(False)
            self.expect_kw('RETURNS')
            rtype = self.type_spec()
            self.routine_chars()
            body = self.routine_body()
            return ('create_function', name, params, rtype, body)
        if what == 'TRIGGER':
            name = self.ident()
            timing = self.expect_kw('BEFORE', 'AFTER')
            event = self.expect_kw('INSERT', 'UPDATE', 'DELETE')
            self.expect_kw('ON')
            table = self.ident()
            self.expect_kw('FOR')
            self.expect_kw('EACH')
            self.expect_kw('ROW')
            if self.is_kw('FOLLOWS', 'PRECEDES'):
                raise UnsupportedSQL('trigger ordering')
            body = self.routine_body()
            return ('create_trigger', name, timing, event, table, body)
        raise UnsupportedSQL(f'CREATE {what}')

    def routine_params(self, allow_mode):
        self.expect_op('(')
        ps = []
        while not self.is_op(')'):
            mode = 'IN'
            if allow_mode and self.is_kw('IN', 'OUT', 'INOUT'):
                mode = self.adv().u
            name = self.ident()
            typ = self.type_spec()
            ps.append((mode, name, typ))
            if not self.accept_op(','):
                break
        self.expect_op(')')
        return ps

    def routine_chars(self):
        while True:
            if self.accept_kw('NOT'):
                self.expect_kw('DETERMINISTIC')
            elif self.accept_kw('DETERMINISTIC'):
                pass
            elif self.is_kw('READS') or self.is_kw('MODIFIES'):
                self.adv()
                self.expect_kw('SQL')
                self.expect_kw('DATA')
            elif self.is_kw('NO') and self.peek_kw(1, 'SQL'):
                self.adv()
                self.adv()
            elif self.is_kw('CONTAINS'):
                self.adv()
                self.expect_kw('SQL')
            elif self.is_kw('SQL') and self.peek_kw(1, 'SECURITY'):
                self.adv()
                self.adv()
                self.adv()
            elif self.is_kw('LANGUAGE'):
                self.adv()
                self.adv()
            elif self.is_kw('COMMENT'):
                self.adv()
                self.adv()
            else:
                break

    def routine_body(self):
        if self.tok.t in (T_IDENT, T_QIDENT) and self.peek().t == T_OP and self.peek().v == ':':
            label = self.ident()
            self.adv()
            return self.labelled(label)
        if self.is_kw('BEGIN'):
            return self.block(None)
        return self.statement()

    def index_cols(self):
        self.expect_op('(')
        cols = []
        while True:
            c = self.ident()
            if self.accept_op('('):
                self.adv()
                self.expect_op(')')
            self.accept_kw('ASC', 'DESC')
            cols.append(c)
            if not self.accept_op(','):
                break
        self.expect_op(')')
        return cols

    def create_table_body(self, name, ine, temp):
        self.expect_op('(')
        cols = []
        pk = None
        uniques = []
        fks = []
        indexes = []
        while True:
            if self.is_kw('PRIMARY'):
                self.adv()
                self.expect_kw('KEY')
                pk = self.index_cols()
            elif self.is_kw('UNIQUE'):
                self.adv()
                self.accept_kw('KEY', 'INDEX')
                if not self.is_op('('):
                    self.ident()
                uniques.append(self.index_cols())
            elif self.is_kw('KEY', 'INDEX') and (self.peek().t in (T_IDENT, T_QIDENT) or self.peek().v == '('):
                self.adv()
                if not self.is_op('('):
                    self.ident()
                indexes.append(self.index_cols())
            elif self.is_kw('CONSTRAINT', 'FOREIGN'):
                if self.accept_kw('CONSTRAINT'):
                    if not self.is_kw('FOREIGN', 'UNIQUE', 'PRIMARY', 'CHECK'):
                        self.ident()
                if self.accept_kw('FOREIGN'):
                    self.expect_kw('KEY')
                    if not self.is_op('('):
                        self.ident()
                    fcols = self.index_cols()
                    self.expect_kw('REFERENCES')
                    rt = self.ident()
                    rcols = self.index_cols()
                    ondel = None
                    while self.accept_kw('ON'):
                        ev = self.expect_kw('DELETE', 'UPDATE')
                        act = self.adv().u
                        if act in ('SET', 'NO'):
                            act += ' ' + self.adv().u
                        if ev == 'DELETE':
                            ondel = act
                    fks.append((fcols, rt, rcols, ondel))
                elif self.accept_kw('UNIQUE'):
                    self.accept_kw('KEY', 'INDEX')
                    if not self.is_op('('):
                        self.ident()
                    uniques.append(self.index_cols())
                elif self.accept_kw('PRIMARY'):
                    self.expect_kw('KEY')
                    pk = self.index_cols()
                else:
                    raise UnsupportedSQL('CHECK constraint')
            else:
                cols.append(self.column_def(uniques))
                if cols[-1].get('primary'):
                    pk = [cols[-1]['name']]
            if not self.accept_op(','):
                break
        self.expect_op(')')
        while not self.at_end() and not self.is_op(';'):
            self.adv()
        return ('create_table', name, cols, pk, uniques, fks, indexes, ine, temp)

    def column_def(self, uniques):
        name = self.ident()
        typ = self.type_spec()
        col = {'name': name, 'type': typ, 'notnull': False, 'default': None, 'has_default': False, 'auto': False,
               'cs': False, 'primary': False}
        while not self.is_op(',') and not self.is_op(')') and not self.is_op(';') and not self.at_end() \
                and not self.is_kw('AFTER', 'FIRST', 'ALGORITHM', 'LOCK'):
            if self.accept_kw('NOT'):
                self.expect_kw('NULL')
                col['notnull'] = True
            elif self.accept_kw('NULL'):
                pass
            elif self.accept_kw('DEFAULT'):
                col['has_default'] = True
                if self.accept_op('('):
                    col['default'] = self.expr()
                    self.expect_op(')')
                else:
                    col['default'] = self.primary()
            elif self.accept_kw('AUTO_INCREMENT'):
                col['auto'] = True
            elif self.accept_kw('UNIQUE'):
                self.accept_kw('KEY')
                uniques.append([name])
            elif self.accept_kw('PRIMARY'):
                self.expect_kw('KEY')
                col['primary'] = True
            elif self.accept_kw('KEY'):
                col['primary'] = True
            elif self.accept_kw('COLLATE'):
                c = self.ident()
                col['cs'] = c.endswith('_cs') or c.endswith('_bin')
            elif self.accept_kw('ON'):
                self.expect_kw('UPDATE')
                self.primary()
                col['on_update_now'] = True
            elif self.accept_kw('COMMENT'):
                self.adv()
            elif self.accept_kw('CHARACTER'):
                self.expect_kw('SET')
                self.ident()
            elif self.accept_kw('GENERATED'):
                raise UnsupportedSQL('generated column')
            else:
                self.err('unknown column attribute')
        return col

    def drop_stmt(self):
        self.expect_kw('DROP')
        self.accept_kw('TEMPORARY')
        what = self.expect_kw('TABLE', 'INDEX', 'PROCEDURE', 'FUNCTION', 'TRIGGER', 'EVENT')
        ie = False
        if self.accept_kw('IF'):
            self.expect_kw('EXISTS')
            ie = True
        names = [self.ident()]
        while self.accept_op(','):
            names.append(self.ident())
        on = None
        if what == 'INDEX' and self.accept_kw('ON'):
            on = self.ident()
        while not self.at_end() and not self.is_op(';'):
            self.adv()
        return ('drop', what, names, ie, on)

    def alter_stmt(self):
        self.expect_kw('ALTER')
        self.expect_kw('TABLE')
        name = self.ident()
        actions = []
        while True:
            if self.accept_kw('ADD'):
                if self.is_kw('PRIMARY'):
                    self.adv()
                    self.expect_kw('KEY')
                    actions.append(('add_pk', self.index_cols()))
                elif self.is_kw('FOREIGN', 'CONSTRAINT'):
                    if self.accept_kw('CONSTRAINT'):
                        if not self.is_kw('FOREIGN'):
                            self.ident()
                    self.expect_kw('FOREIGN')
                    self.expect_kw('KEY')
                    if not self.is_op('('):
                        self.ident()
                    fcols = self.index_cols()
                    self.expect_kw('REFERENCES')
                    rt = self.ident()
                    rcols = self.index_cols()
                    ondel = None
                    while self.accept_kw('ON'):
                        ev = self.expect_kw('DELETE', 'UPDATE')
                        act = self.adv().u
                        if act in ('SET', 'NO'):
                            act += ' ' + self.adv().u
                        if ev == 'DELETE':
                            ondel = act
                    actions.append(('add_fk', (fcols, rt, rcols, ondel)))
                elif self.is_kw('UNIQUE'):
                    self.adv()
                    self.accept_kw('KEY', 'INDEX')
                    if not self.is_op('('):
                        self.ident()
                    actions.append(('add_unique', self.index_cols()))
                elif self.is_kw('INDEX', 'KEY'):
                    self.adv()
                    if not self.is_op('('):
                        self.ident()
                    actions.append(('add_index', self.index_cols()))
                else:
                    self.accept_kw('COLUMN')
                    us = []
                    col = self.column_def(us)
                    if self.accept_kw('AFTER'):
                        self.ident()
                    self.accept_kw('FIRST')
                    actions.append(('add_column', col, us))
            elif self.accept_kw('DROP'):
                if self.accept_kw('PRIMARY'):
                    self.expect_kw('KEY')
                    actions.append(('drop_pk',))
                elif self.accept_kw('INDEX', 'KEY'):
                    actions.append(('drop_index', self.ident()))
                elif self.accept_kw('FOREIGN'):
                    self.expect_kw('KEY')
                    actions.append(('drop_fk', self.ident()))
                else:
                    self.accept_kw('COLUMN')
                    actions.append(('drop_column', self.ident()))
            elif self.accept_kw('MODIFY'):
                self.accept_kw('COLUMN')
                us = []
                col = self.column_def(us)
                actions.append(('modify_column', col))
            elif self.accept_kw('CHANGE'):
                self.accept_kw('COLUMN')
                old = self.ident()
                us = []
                col = self.column_def(us)
                actions.append(('change_column', old, col))
            elif self.accept_kw('RENAME'):
                if self.accept_kw('COLUMN'):
                    old = self.ident()
                    self.expect_kw('TO')
                    actions.append(('rename_column', old, self.ident()))
                else:
                    self.accept_kw('TO', 'AS')
                    actions.append(('rename', self.ident()))
            elif self.is_kw('ALGORITHM', 'LOCK'):
                self.adv()
                self.accept_op('=')
                self.adv()
            else:
                self.err('unsupported ALTER action')
            if not self.accept_op(','):
                break
        return ('alter', name, actions)

    # -- DML ---------------------------------------------------------------------------------
    def insert_stmt(self):
        replace = self.adv().u == 'REPLACE'
        ignore = bool(self.accept_kw('IGNORE'))
        self.accept_kw('INTO')
        table = self.ident()
        cols = None
        if self.is_op('(') and not (self.peek_kw(1, 'SELECT', 'WITH')):
            self.adv()
            cols = []
            if not self.is_op(')'):
                cols.append(self.ident())
                while self.accept_op(','):
                    cols.append(self.ident())
            self.expect_op(')')
        rows = None
        query = None
        if self.accept_kw('VALUES', 'VALUE'):
            rows = []
            while True:
                self.expect_op('(')
                r = []
                if not self.is_op(')'):
                    r.append(self.expr_or_default())
                    while self.accept_op(','):
                        r.append(self.expr_or_default())
                self.expect_op(')')
                rows.append(r)
                if not self.accept_op(','):
                    break
        elif self.is_kw('SELECT', 'WITH') or self.is_op('('):
            query = self.select_stmt()
        elif self.accept_kw('SET'):
            cols = []
            r = []
            while True:
                cols.append(self.ident())
                self.expect_op('=')
                r.append(self.expr_or_default())
                if not self.accept_op(','):
                    break
            rows = [r]
        else:
            self.err('expected VALUES or SELECT')
        row_alias = None
        if self.accept_kw('AS'):
            row_alias = self.ident()
        odku = None
        if self.accept_kw('ON'):
            self.expect_kw('DUPLICATE')
            self.expect_kw('KEY')
            self.expect_kw('UPDATE')
            odku = []
            while True:
                c = self.ident()
                if self.accept_op('.'):
                    c = self.ident()
                self.expect_op('=')
                odku.append((c, self.expr()))
                if not self.accept_op(','):
                    break
        return ('insert', table, cols, rows, query, odku, ignore, replace, row_alias)

    def expr_or_default(self):
        if self.is_kw('DEFAULT') and not (self.peek().t == T_OP and self.peek().v == '('):
            self.adv()
            return ('default',)
        return self.expr()

    def update_stmt(self):
        self.expect_kw('UPDATE')
        self.accept_kw('LOW_PRIORITY')
        self.accept_kw('IGNORE')
        refs = self.table_refs()
        self.expect_kw('SET')
        assigns = []
        while True:
            a = self.ident()
            b = None
            if self.accept_op('.'):
                b = self.ident()
            self.expect_op('=')
            e = self.expr_or_default()
            assigns.append(((a, b) if b else (None, a), e))
            if not self.accept_op(','):
                break
        where = self.expr() if self.accept_kw('WHERE') else None
        order = self.order_by() if self.is_kw('ORDER') else None
        limit = None
        if self.accept_kw('LIMIT'):
            limit = self.expr()
        return ('update', refs, assigns, where, order, limit)

    def delete_stmt(self):
        self.expect_kw('DELETE')
        targets = None
        if not self.is_kw('FROM'):
            targets = [self.ident()]
            if self.accept_op('.'):
                self.expect_op('*')
            while self.accept_op(','):
                targets.append(self.ident())
                if self.accept_op('.'):
                    self.expect_op('*')
        self.expect_kw('FROM')
        refs = self.table_refs()
        if targets is None and refs[0] == 'table' and self.accept_kw('USING'):
            targets = [refs[2] or refs[1]]
            refs = self.table_refs()
        where = self.expr() if self.accept_kw('WHERE') else None
        order = self.order_by() if self.is_kw('ORDER') else None
        limit = None
        if self.accept_kw('LIMIT'):
            limit = self.expr()
        return ('delete', refs, where, order, limit, targets)

    # -- SELECT ------------------------------------------------------------------------------
    def select_stmt(self):
        ctes = None
        if self.accept_kw('WITH'):
            if self.accept_kw('RECURSIVE'):
                raise UnsupportedSQL('WITH RECURSIVE')
            ctes = []
            while True:
                name = self.ident()
                colnames = None
                if self.is_op('('):
                    colnames = self.index_cols()
                self.expect_kw('AS')
                self.expect_op('(')
                q = self.select_stmt()
                self.expect_op(')')
                ctes.append((name, colnames, q))
                if not self.accept_op(','):
                    break
        q = self.select_core_or_paren()
        while self.is_kw('UNION'):
            self.adv()
            all_ = bool(self.accept_kw('ALL'))
            self.accept_kw('DISTINCT')
            r = self.select_core_or_paren()
            q = ('union', q, r, all_, None, None)
        if q[0] == 'union':
            order = self.order_by() if self.is_kw('ORDER') else None
            limit = self.limit_clause() if self.is_kw('LIMIT') else None
            q = ('union', q[1], q[2], q[3], order, limit)
        if ctes:
            q = ('with', ctes, q)
        return q

    def select_core_or_paren(self):
        if self.is_op('('):
            self.adv()
            q = self.select_stmt()
            self.expect_op(')')
            # trailing ORDER/LIMIT on parenthesised select
            if self.is_kw('ORDER') or self.is_kw('LIMIT'):
                order = self.order_by() if self.is_kw('ORDER') else None
                limit = self.limit_clause() if self.is_kw('LIMIT') else None
                q = ('wrap', q, order, limit)
            return q
        return self.select_core()

    def select_core(self):
        self.expect_kw('SELECT')
        distinct = False
        while self.is_kw('DISTINCT', 'ALL', 'SQL_CALC_FOUND_ROWS', 'STRAIGHT_JOIN', 'SQL_NO_CACHE', 'HIGH_PRIORITY'):
            if self.adv().u == 'DISTINCT':
                distinct = True
        items = []
        while True:
            if self.is_op('*'):
                self.adv()
                items.append(('star', None))
            elif self.tok.t in (T_IDENT, T_QIDENT) and self.peek().t == T_OP and self.peek().v == '.' and \
                    self.peek(2).t == T_OP and self.peek(2).v == '*':
                t = self.ident()
                self.adv()
                self.adv()
                items.append(('star', t))
            else:
                start = self.tok.pos
                e = self.expr()
                text = self.sql[start:self.tok.pos].strip()
                alias = None
                if self.accept_kw('AS'):
                    alias = self.ident() if self.tok.t != T_STR else self.adv().v
                elif self.tok.t == T_QIDENT or (self.tok.t == T_IDENT and self.tok.u not in RESERVED_STOP):
                    alias = self.ident()
                items.append(('expr', e, alias, text))
            if not self.accept_op(','):
                break
        into = None
        if self.is_kw('INTO'):
            into = self.into_clause()
        refs = None
        if self.accept_kw('FROM'):
            refs = self.table_refs()
        where = self.expr() if self.accept_kw('WHERE') else None
        group = None
        if self.accept_kw('GROUP'):
            self.expect_kw('BY')
            group = [self.expr()]
            while self.accept_op(','):
                group.append(self.expr())
            if self.accept_kw('WITH'):
                raise UnsupportedSQL('WITH ROLLUP')
        having = self.expr() if self.accept_kw('HAVING') else None
        if self.is_kw('WINDOW'):
            raise UnsupportedSQL('WINDOW clause')
        order = self.order_by() if self.is_kw('ORDER') else None
        limit = self.limit_clause() if self.is_kw('LIMIT') else None
        if self.is_kw('INTO'):
            into = self.into_clause()
        lock = self.locking()
        if self.is_kw('INTO'):
            into = self.into_clause()
        return ('select', distinct, items, refs, where, group, having, order, limit, into, lock)

    def into_clause(self):
        self.expect_kw('INTO')
        vs = []
        while True:
            t = self.tok
            if t.t == T_UVAR:
                self.adv()
                vs.append(('uvar', t.v))
            else:
                vs.append(('name', self.ident()))
            if not self.accept_op(','):
                break
        return vs

    def locking(self):
        lock = None
        while True:
            if self.is_kw('FOR') and self.peek_kw(1, 'UPDATE', 'SHARE'):
                self.adv()
                lock = self.adv().u
                if self.accept_kw('OF'):
                    self.ident()
                    while self.accept_op(','):
                        self.ident()
                if self.accept_kw('NOWAIT'):
                    pass
                elif self.accept_kw('SKIP'):
                    self.expect_kw('LOCKED')
            elif self.is_kw('LOCK') and self.peek_kw(1, 'IN'):
                self.adv()
                self.adv()
                self.expect_kw('SHARE')
                self.expect_kw('MODE')
                lock = 'SHARE'
            else:
                break
        return lock

    def order_by(self):
        self.expect_kw('ORDER')
        self.expect_kw('BY')
        out = []
        while True:
            e = self.expr()
            desc = False
            if self.accept_kw('ASC'):
                pass
            elif self.accept_kw('DESC'):
                desc = True
            out.append((e, desc))
            if not self.accept_op(','):
                break
        return out

    def limit_clause(self):
        self.expect_kw('LIMIT')
        a = self.expr()
        off = None
        if self.accept_op(','):
            off = a
            a = self.expr()
        elif self.accept_kw('OFFSET'):
            off = self.expr()
        return (a, off)

    def table_refs(self):
        left = self.join_chain()
        while self.accept_op(','):
            right = self.join_chain()
            left = ('join', 'INNER', left, right, None, None)
        return left

    def join_chain(self):
        left = self.table_factor()
        while True:
            kind = None
            if self.is_kw('JOIN'):
                self.adv()
                kind = 'INNER'
            elif self.is_kw('INNER', 'CROSS') and self.peek_kw(1, 'JOIN'):
                self.adv()
                self.adv()
                kind = 'INNER'
            elif self.is_kw('STRAIGHT_JOIN'):
                self.adv()
                kind = 'INNER'
            elif self.is_kw('LEFT', 'RIGHT'):
                kind = self.adv().u
                self.accept_kw('OUTER')
                self.expect_kw('JOIN')
            elif self.is_kw('NATURAL'):
                raise UnsupportedSQL('NATURAL JOIN')
            else:
                break
            right = self.table_factor()
            on = None
            using = None
            if self.accept_kw('ON'):
                on = self.expr()
            elif self.accept_kw('USING'):
                using = self.index_cols()
            left = ('join', kind, left, right, on, using)
        return left

    def table_factor(self):
        lateral = bool(self.accept_kw('LATERAL'))
        if self.is_op('('):
            if self.peek_kw(1, 'SELECT', 'WITH') or (self.peek().t == T_OP and self.peek().v == '('
                                                      and self.peek_kw(2, 'SELECT')):
                self.adv()
                q = self.select_stmt()
                self.expect_op(')')
                self.accept_kw('AS')
                alias = self.ident()
                colnames = None
                if self.is_op('('):
                    colnames = self.index_cols()
                return ('derived', q, alias, lateral, colnames)
            self.adv()
            r = self.table_refs()
            self.expect_op(')')
            return r
        name = self.ident()
        if self.accept_op('.'):
            name = self.ident()
        alias = None
        if self.accept_kw('AS'):
            alias = self.ident()
        elif self.tok.t == T_QIDENT or (self.tok.t == T_IDENT and self.tok.u not in RESERVED_STOP
                                         and self.tok.u not in ('PARTITION',)):
            alias = self.ident()
        while self.is_kw('FORCE', 'USE', 'IGNORE') and self.peek_kw(1, 'INDEX', 'KEY'):
            self.adv()
            self.adv()
            if self.accept_kw('FOR'):
                self.adv()
                if self.is_kw('BY'):
                    self.adv()
            self.expect_op('(')
            while not self.is_op(')'):
                self.adv()
            self.expect_op(')')
        return ('table', name, alias)

    # -- expressions -------------------------------------------------------------------------
    def expr(self):
        return self.p_assign()

    def p_assign(self):
        # @v := expr  (lowest precedence)
        if self.tok.t == T_UVAR and self.peek().t == T_OP and self.peek().v == ':=':
            name = self.adv().v
            self.adv()
            return ('uassign', name, self.p_assign())
        return self.p_or()

    def p_or(self):
        l = self.p_xor()
        while self.is_kw('OR') or self.is_op('||'):
            self.adv()
            l = ('or', l, self.p_xor())
        return l

    def p_xor(self):
        l = self.p_and()
        while self.accept_kw('XOR'):
            l = ('xor', l, self.p_and())
        return l

    def p_and(self):
        l = self.p_not()
        while self.is_kw('AND') or self.is_op('&&'):
            self.adv()
            l = ('and', l, self.p_not())
        return l

    def p_not(self):
        if self.is_kw('NOT') and not self.peek_kw(1, 'EXISTS'):
            self.adv()
            return ('not', self.p_not())
        if self.is_kw('NOT') and self.peek_kw(1, 'EXISTS'):
            self.adv()
            return ('not', self.p_not())
        return self.p_cmp()

    def p_cmp(self):
        l = self.p_bitor()
        while True:
            if self.is_op('=', '<', '>', '<=', '>=', '<>', '!=', '<=>'):
                op = self.adv().v
                if self.is_kw('ANY', 'ALL', 'SOME'):
                    raise UnsupportedSQL('quantified comparison')
                r = self.p_bitor()
                l = ('cmp', op, l, r)
            elif self.is_kw('IS'):
                self.adv()
                neg = bool(self.accept_kw('NOT'))
                if self.accept_kw('NULL'):
                    l = ('isnull', l, neg)
                elif self.accept_kw('TRUE'):
                    l = ('istrue', l, neg, True)
                elif self.accept_kw('FALSE'):
                    l = ('istrue', l, neg, False)
                else:
                    self.err('expected NULL/TRUE/FALSE after IS')
            elif self.is_kw('NOT') and self.peek_kw(1, 'IN', 'LIKE', 'BETWEEN', 'REGEXP', 'RLIKE'):
                self.adv()
                l = self.p_pred_tail(l, True)
            elif self.is_kw('IN', 'LIKE', 'BETWEEN', 'REGEXP', 'RLIKE'):
                l = self.p_pred_tail(l, False)
            else:
                return l

    def p_pred_tail(self, l, neg):
        u = self.adv().u
        if u == 'IN':
            self.expect_op('(')
            if self.is_kw('SELECT', 'WITH'):
                q = self.select_stmt()
                self.expect_op(')')
                return ('in_query', l, q, neg)
            vals = [self.expr()]
            while self.accept_op(','):
                vals.append(self.expr())
            self.expect_op(')')
            return ('in_list', l, vals, neg)
        if u == 'LIKE':
            pat = self.p_bitor()
            esc = None
            if self.accept_kw('ESCAPE'):
                esc = self.p_bitor()
            return ('like', l, pat, neg, esc)
        if u == 'BETWEEN':
            a = self.p_bitor()
            self.expect_kw('AND')
            b = self.p_bitor()
            return ('between', l, a, b, neg)
        pat = self.p_bitor()
        return ('regexp', l, pat, neg)

    def p_bitor(self):
        l = self.p_bitand()
        while self.is_op('|'):
            self.adv()
            l = ('bin', '|', l, self.p_bitand())
        return l

    def p_bitand(self):
        l = self.p_shift()
        while self.is_op('&'):
            self.adv()
            l = ('bin', '&', l, self.p_shift())
        return l

    def p_shift(self):
        l = self.p_add()
        while self.is_op('<<', '>>'):
            op = self.adv().v
            l = ('bin', op, l, self.p_add())
        return l

    def p_add(self):
        l = self.p_mul()
        while self.is_op('+', '-'):
            op = self.adv().v
            if self.is_kw('INTERVAL'):
                raise UnsupportedSQL('INTERVAL arithmetic')
            l = ('bin', op, l, self.p_mul())
        return l

    def p_mul(self):
        l = self.p_xorbit()
        while True:
            if self.is_op('*', '/', '%'):
                op = self.adv().v
                l = ('bin', op, l, self.p_xorbit())
            elif self.is_kw('DIV', 'MOD'):
                op = self.adv().u
                l = ('bin', op, l, self.p_xorbit())
            else:
                return l

    def p_xorbit(self):
        l = self.p_unary()
        while self.is_op('^'):
            self.adv()
            l = ('bin', '^', l, self.p_unary())
        return l

    def p_unary(self):
        if self.is_op('-'):
            self.adv()
            return ('neg', self.p_unary())
        if self.is_op('+'):
            self.adv()
            return self.p_unary()
        if self.is_op('!'):
            self.adv()
            return ('not', self.p_unary())
        if self.is_op('~'):
            self.adv()
            return ('bitnot', self.p_unary())
        if self.is_kw('BINARY') and not (self.peek().t == T_OP and self.peek().v == '('):
            self.adv()
            return ('binary', self.p_unary())
        e = self.primary()
        while self.is_kw('COLLATE'):
            self.adv()
            c = self.ident()
            e = ('collate', e, c)
        return e

    def primary(self):
        t = self.tok
        if t.t == T_NUM:
            self.adv()
            v = t.v
            if '.' in v or 'e' in v or 'E' in v:
                return ('lit', float(v)) if ('e' in v or 'E' in v) else ('declit', v)
            return ('lit', int(v))
        if t.t == T_STR:
            self.adv()
            s = t.v
            # adjacent string literals concatenate
            while self.tok.t == T_STR:
                s += self.adv().v
            return ('lit', s)
        if t.t == T_PARAM:
            self.adv()
            if t.v == '%s':
                k = self.n_params
                self.n_params += 1
                return ('param', k)
            return ('nparam', t.v)
        if t.t == T_UVAR:
            self.adv()
            return ('uvar', t.v)
        if t.t == T_OP and t.v == '(':
            self.adv()
            if self.is_kw('SELECT', 'WITH'):
                q = self.select_stmt()
                self.expect_op(')')
                return ('subquery', q)
            e = self.expr()
            if self.is_op(','):
                items = [e]
                while self.accept_op(','):
                    items.append(self.expr())
                self.expect_op(')')
                return ('row', items)
            self.expect_op(')')
            return e
        if t.t == T_QIDENT:
            return self.name_or_call()
        if t.t == T_IDENT:
            u = t.u
            if u == 'NULL':
                self.adv()
                return ('lit', None)
            if u == 'TRUE':
                self.adv()
                return ('lit', 1)
            if u == 'FALSE':
                self.adv()
                return ('lit', 0)
            if u == 'EXISTS':
                self.adv()
                self.expect_op('(')
                q = self.select_stmt()
                self.expect_op(')')
                return ('exists', q)
            if u == 'CASE':
                return self.case_expr()
            if u == 'CAST':
                self.adv()
                self.expect_op('(')
                e = self.expr()
                self.expect_kw('AS')
                typ = self.type_spec()
                if typ[0] in ('SIGNED', 'UNSIGNED'):
                    self.accept_kw('INTEGER', 'INT')
                self.expect_op(')')
                return ('cast', e, typ[0])
            if u == 'CONVERT':
                self.adv()
                self.expect_op('(')
                e = self.expr()
                if self.accept_op(','):
                    typ = self.type_spec()
                    self.expect_op(')')
                    return ('cast', e, typ[0])
                self.expect_kw('USING')
                self.ident()
                self.expect_op(')')
                return e
            if u == 'INTERVAL':
                raise UnsupportedSQL('INTERVAL')
            if u in ('CURRENT_TIMESTAMP', 'CURRENT_DATE', 'UTC_TIMESTAMP', 'UTC_DATE', 'NOW') and not (
                    self.peek().t == T_OP and self.peek().v == '('):
                self.adv()
                return ('func', u, [])
            if u == 'IF' or u == 'VALUES' or u == 'DEFAULT' or u == 'MOD' or u == 'LEFT' or u == 'RIGHT' \
                    or u == 'REPLACE' or u == 'INSERT':
                if self.peek().t == T_OP and self.peek().v == '(':
                    self.adv()
                    return self.call_tail(u)
            return self.name_or_call()
        self.err('expected expression')

    def case_expr(self):
        self.expect_kw('CASE')
        operand = None
        if not self.is_kw('WHEN'):
            operand = self.expr()
        arms = []
        while self.accept_kw('WHEN'):
            c = self.expr()
            self.expect_kw('THEN')
            v = self.expr()
            arms.append((c, v))
        els = None
        if self.accept_kw('ELSE'):
            els = self.expr()
        self.expect_kw('END')
        return ('case', operand, arms, els)

    def name_or_call(self):
        name = self.ident()
        if self.is_op('('):
            return self.call_tail(name.upper(), name)
        if self.accept_op('.'):
            if self.is_op('*'):
                self.err('unexpected .*')
            b = self.ident()
            if self.accept_op('.'):
                c = self.ident()
                return ('col', b, c)
            return ('col', name, b)
        return ('col', None, name)

    def call_tail(self, u, orig=None):
        self.expect_op('(')
        if u == 'COUNT':
            if self.accept_op('*'):
                self.expect_op(')')
                node = ('agg', 'COUNT', None, False)
                return self.maybe_over(node)
            distinct = bool(self.accept_kw('DISTINCT'))
            e = self.expr()
            self.expect_op(')')
            return self.maybe_over(('agg', 'COUNT', e, distinct))
        if u in ('SUM', 'MIN', 'MAX', 'AVG', 'BIT_OR', 'BIT_AND', 'JSON_OBJECTAGG', 'JSON_ARRAYAGG', 'GROUP_CONCAT',
                 'ANY_VALUE_AGG'):
            distinct = bool(self.accept_kw('DISTINCT'))
            args = [self.expr()]
            while self.accept_op(','):
                args.append(self.expr())
            if u == 'GROUP_CONCAT':
                raise UnsupportedSQL('GROUP_CONCAT')
            self.expect_op(')')
            e = args[0] if len(args) == 1 else ('row', args)
            return self.maybe_over(('agg', u, e, distinct))
        args = []
        if not self.is_op(')'):
            args.append(self.expr())
            while self.accept_op(','):
                args.append(self.expr())
        self.expect_op(')')
        if u in ('ROW_NUMBER', 'RANK', 'DENSE_RANK', 'LAG', 'LEAD'):
            return self.maybe_over(('winfunc', u, args), required=True)
        return ('func', u, args)

    def maybe_over(self, node, required=False):
        if self.is_kw('OVER'):
            self.adv()
            self.expect_op('(')
            part = None
            order = None
            if self.accept_kw('PARTITION'):
                self.expect_kw('BY')
                part = [self.expr()]
                while self.accept_op(','):
                    part.append(self.expr())
            if self.is_kw('ORDER'):
                order = self.order_by()
            if self.is_kw('ROWS', 'RANGE'):
                raise UnsupportedSQL('window frame')
            self.expect_op(')')
            return ('window', node, part, order)
        if required:
            self.err('window function requires OVER')
        return node


_memo = {}


def parse(sql):
    hit = _memo.get(sql)
    if hit is None:
        p = Parser(sql)
        hit = _memo[sql] = (p.parse_one(), p.n_params)
    return hit


def parse_script(sql):
    return Parser(sql).parse_script()
