"""The engine: catalog, sessions, transactions, statement cache, DDL, hooks."""
import os
import datetime
import random

from .dml import DMLMixin
from .errors import MySQLError, NotFound
from .exprs import Env, ExprMixin, Runtime, Scope
from .lexer import SQLSyntaxError, UnsupportedSQL
from .parser import parse
from .query import QueryMixin
from .routines import Leave, Routine, RoutineMixin
from .storage import Table


class Session:
    _n = 0

    def __init__(self, eng):
        Session._n += 1
        self.id = Session._n
        self.eng = eng
        self.journal = []
        self.in_txn = False
        self.read_only = False
        self.autocommit = True
        self.uvars = {}
        self.sysvars = {}
        self.row_count = 0
        self.found_rows = 0
        self.last_insert_id = 0
        self.insert_id_for_client = 0
        self.pending_insert_id = None
        self.txn_epoch = 0
        self.closed = False
        self.uv_trace = None


class Result:
    __slots__ = ('cols', 'rows', 'affected', 'lastrowid')

    def __init__(self, cols=None, rows=None, affected=0, lastrowid=0):
        self.cols = cols
        self.rows = rows
        self.affected = affected
        self.lastrowid = lastrowid


READ_KINDS = ('select', 'union', 'with', 'wrap')


_TRACE_SQL = bool(os.environ.get('VERIF_DBTRACE'))  # debugging aid only


class Engine(ExprMixin, QueryMixin, DMLMixin, RoutineMixin):
    def __init__(self, rand=None, clock=None):
        self.tables = {}
        self.procedures = {}
        self.functions = {}
        self.triggers = {}
        self.cache = {}
        self.stmt_seq = 0
        self._rand = rand or random.Random(0).random
        self._clock = clock or (lambda: 1_700_000_000.0)
        self.commit_hooks = []   # f(sess, journal entries)
        self.change_count = 0
        self.n_commits = 0
        self.n_rollbacks = 0
        self.stmt_counts = {}
        self.routine_sources = {}

    def reset(self, rand=None, clock=None):
        """empty every table and forget run state, keeping the catalog and everything compiled."""
        for t in self.tables.values():
            t.rows = {}
            t.next_rowid = 1
            t.auto_next = 1
            t.pk_index = {}
            t.uniq_indexes = [dict() for _ in t.uniques]
            t.sec_indexes = {}
            t.version = 0
        for r in list(self.procedures.values()) + list(self.functions.values()) + list(self.triggers.values()):
            r.calls = 0
        self.stmt_seq = 0
        self._rand = rand or random.Random(0).random
        self._clock = clock or (lambda: 1_700_000_000.0)
        self.commit_hooks = []
        self.change_count = 0
        self.n_commits = 0
        self.n_rollbacks = 0
        self.stmt_counts = {}

    # -- environment ------------------------------------------------------------------------------
    def rand(self):
        return self._rand()

    def now(self):
        return self._clock()

    def utcnow(self):
        return datetime.datetime.utcfromtimestamp(self._clock())

    def table(self, name):
        t = self.tables.get(name.lower())
        if t is None:
            raise MySQLError(1146, f"Table 'batch.{name}' doesn't exist", '42S02')
        return t

    def session(self):
        return Session(self)

    # -- transactions -----------------------------------------------------------------------------
    def begin(self, sess, read_only=False):
        if sess.in_txn or sess.journal:
            self.commit(sess)
        sess.in_txn = True
        sess.read_only = read_only

    def commit(self, sess):
        j = sess.journal
        sess.journal = []
        sess.in_txn = False
        sess.read_only = False
        sess.txn_epoch += 1
        if j:
            self.n_commits += 1
            self.change_count += len(j)
            for h in self.commit_hooks:
                h(sess, j)
            if _TRACE_SQL:
                sess.__dict__['trace'] = []

    def rollback(self, sess):
        self.undo_to(sess, 0)
        sess.in_txn = False
        sess.read_only = False
        sess.txn_epoch += 1
        self.n_rollbacks += 1

    def undo_to(self, sess, sp):
        j = sess.journal
        while len(j) > sp:
            e = j.pop()
            e[1].undo(e)

    # -- statements -------------------------------------------------------------------------------
    def compile(self, sql):
        hit = self.cache.get(sql)
        if hit is not None:
            return hit
        try:
            ast, nparams = parse(sql)
        except SQLSyntaxError as e:
            raise MySQLError(1064, f'You have an error in your SQL syntax: {e}', '42000') from None
        kind = ast[0]
        fn = self.c_stmt(Scope(), ast)
        locking = False
        if kind == 'select':
            locking = ast[10] is not None
        hit = (fn, kind, nparams, locking)
        if kind not in ('create_table', 'create_index', 'alter', 'drop', 'create_procedure', 'create_function',
                        'create_trigger', 'create_table_as'):
            self.cache[sql] = hit
        return hit

    def classify(self, sql):
        """'read' (plain SELECT), 'txn' (START/COMMIT/ROLLBACK/SET) or 'write'."""
        fn, kind, _n, locking = self.compile(sql)
        if kind in READ_KINDS:
            return 'write' if locking else 'read'
        if kind in ('start', 'commit', 'rollback', 'set'):
            return 'txn'
        return 'write'

    def execute(self, sess, sql, params=None):
        fn, kind, nparams, _l = self.compile(sql)
        if params is not None and not isinstance(params, (list, tuple, dict)):
            params = (params,)
        if isinstance(params, (list, tuple)) and len(params) != nparams:
            raise MySQLError(1064, f'statement expects {nparams} parameters, got {len(params)}: {sql[:80]!r}')
        self.stmt_seq += 1
        self.stmt_counts[kind] = self.stmt_counts.get(kind, 0) + 1
        if _TRACE_SQL:
            sess.__dict__.setdefault('trace', []).append((' '.join(sql.split())[:160], params))
        if sess.read_only and kind in ('insert', 'update', 'delete'):
            raise MySQLError(1792, 'Cannot execute statement in a READ ONLY transaction.', '25006')
        rt = Runtime(self, sess, params)
        sp = len(sess.journal)
        epoch = sess.txn_epoch
        sess.insert_id_for_client = 0
        try:
            r = fn(rt)
        except NotFound:
            r = None
        except Leave:
            r = None
        except MySQLError:
            if sess.txn_epoch == epoch:
                self.undo_to(sess, sp)
            raise
        if kind not in ('start', 'commit', 'rollback') and not sess.in_txn:
            if sess.autocommit:
                self.commit(sess)
            elif sess.journal:
                sess.in_txn = True
        if kind == 'call':
            if rt.results:
                cols, rows = rt.results[0]
                return Result(cols, rows, 0, 0)
            return Result(None, None, max(sess.row_count, 0), 0)
        if isinstance(r, tuple):
            return Result(r[0], r[1], len(r[1]), 0)
        if isinstance(r, int):
            return Result(None, None, r, sess.insert_id_for_client)
        return Result(None, None, 0, 0)

    # -- DDL --------------------------------------------------------------------------------------
    def c_ddl(self, scope, node):
        k = node[0]
        if k == 'create_table':
            _, name, cols, pk, uniques, fks, indexes, ine, temp = node

            def run(rt):
                if name.lower() in self.tables:
                    if ine:
                        return 0
                    raise MySQLError(1050, f"Table '{name}' already exists", '42S01')
                t = Table(name, cols, pk, uniques, fks, temp)
                self.tables[name.lower()] = t
                self._relink()
                self.cache.clear()
                return 0
            return run
        if k == 'drop':
            _, what, names, ie, on = node

            def run(rt):
                for n in names:
                    ln = n.lower()
                    if what == 'TABLE':
                        if ln in self.tables:
                            del self.tables[ln]
                            for tn in [x for x, tr in self.triggers.items() if tr.table.lname == ln]:
                                del self.triggers[tn]
                            self._relink()
                        elif not ie:
                            raise MySQLError(1051, f"Unknown table '{n}'", '42S02')
                    elif what == 'PROCEDURE':
                        if self.procedures.pop(ln, None) is None and not ie:
                            raise MySQLError(1305, f'PROCEDURE {n} does not exist', '42000')
                    elif what == 'FUNCTION':
                        if self.functions.pop(ln, None) is None and not ie:
                            raise MySQLError(1305, f'FUNCTION {n} does not exist', '42000')
                    elif what == 'TRIGGER':
                        tr = self.triggers.pop(ln, None)
                        if tr is None and not ie:
                            raise MySQLError(1360, 'Trigger does not exist')
                        if tr is not None:
                            lst = tr.table.triggers.get((tr.timing, tr.event), [])
                            if tr in lst:
                                lst.remove(tr)
                    elif what == 'INDEX':
                        pass
                self.cache.clear()
                return 0
            return run
        if k == 'create_index':
            _, iname, tname, cols, unique = node

            def run(rt):
                t = self.table(tname)
                if unique:
                    idxs = [t.colidx[c.lower()] for c in cols]
                    t.uniques.append(idxs)
                    d = {}
                    for rid, row in t.rows.items():
                        kx = t._key(idxs, row)
                        if None not in kx:
                            d[kx] = rid
                    t.uniq_indexes.append(d)
                return 0
            return run
        if k == 'create_procedure':
            _, name, params, body = node

            def run(rt):
                if name.lower() in self.procedures:
                    raise MySQLError(1304, f'PROCEDURE {name} already exists', '42000')
                self.procedures[name.lower()] = Routine('procedure', name, params, body)
                self.cache.clear()
                return 0
            return run
        if k == 'create_function':
            _, name, params, rtype, body = node

            def run(rt):
                if name.lower() in self.functions:
                    raise MySQLError(1304, f'FUNCTION {name} already exists', '42000')
                self.functions[name.lower()] = Routine('function', name, params, body)
                self.cache.clear()
                return 0
            return run
        if k == 'create_trigger':
            _, name, timing, event, tname, body = node

            def run(rt):
                t = self.table(tname)
                if name.lower() in self.triggers:
                    raise MySQLError(1359, 'Trigger already exists')
                tr = Routine('trigger', name, [], body, table=t, timing=timing, event=event)
                self.triggers[name.lower()] = tr
                t.triggers.setdefault((timing, event), []).append(tr)
                return 0
            return run
        if k == 'alter':
            _, tname, actions = node

            def run(rt):
                t = self.table(tname)
                for a in actions:
                    if a[0] == 'add_column':
                        if a[1]['name'].lower() not in t.colidx:
                            t.add_column(a[1])
                            dflt = t.cols[-1]
                            if dflt.has_default or dflt.default is not None:
                                v = self._default_value(t, dflt, rt)
                                for row in t.rows.values():
                                    row[-1] = v
                    elif a[0] == 'add_fk':
                        t.add_fk(a[1])
                        self._relink()
                    elif a[0] in ('add_pk', 'drop_pk', 'add_index', 'drop_index', 'add_unique', 'modify_column',
                                  'drop_fk'):
                        if a[0] == 'add_pk':
                            t.pk = [t.colidx[c.lower()] for c in a[1]]
                            t.pk_index = {t._key(t.pk, r): rid for rid, r in t.rows.items()}
                        elif a[0] == 'drop_pk':
                            t.pk = None
                            t.pk_index = {}
                    else:
                        raise UnsupportedSQL(f'ALTER action {a[0]}')
                self.cache.clear()
                return 0
            return run
        raise UnsupportedSQL(f'statement {k}')

    def _relink(self):
        for t in self.tables.values():
            t.children = []
        for t in self.tables.values():
            for fk in t.fks:
                p = self.tables.get(fk[1])
                if p is not None:
                    p.children.append((t, fk))
