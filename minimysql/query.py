"""SELECT compilation: FROM planning with equality pushdown, WHERE, GROUP BY, HAVING, windows, ORDER, LIMIT."""
import decimal
import functools

from .errors import MySQLError, NotFound
from .exprs import Env, Scope, Source
from .lexer import UnsupportedSQL
from .storage import key_norm
from .values import D, compare, sort_key, to_num, truth


class ColName(str):
    """result column name that remembers its table (pymysql's DictCursor prefixes duplicate names with it)."""
    table = None


def conjuncts(n, out=None):
    if out is None:
        out = []
    if n is None:
        return out
    if n[0] == 'and':
        conjuncts(n[1], out)
        conjuncts(n[2], out)
    else:
        out.append(n)
    return out


def _compatible(col, v):
    """may an index lookup replace `col = v`?  only when no cross-type coercion subtleties exist."""
    if v is None:
        return True
    k = col.kind
    if k == 'int':
        if isinstance(v, bool) or isinstance(v, int):
            return True
        if isinstance(v, D):
            return v == v.to_integral_value()
        if isinstance(v, str):
            try:
                int(v)
                return v.strip() == v
            except ValueError:
                return False
        return False
    if k == 'str':
        return isinstance(v, str)
    return False


class QueryMixin:
    def c_query(self, parent, node, exists=False):
        k = node[0]
        if k == 'select':
            return self.c_select(parent, node)
        if k == 'with':
            sc = Scope(parent)
            for name, colnames, q in node[1]:
                cq = self.c_query(sc, q)
                sc.ctes[name.lower()] = (cq, colnames)
            inner = self.c_query(sc, node[2])

            def run_with(env):
                return inner(Env([], env, env.rt))
            run_with.colnames = inner.colnames
            run_with.correlated = True
            return run_with
        if k == 'wrap':
            inner = self.c_query(parent, node[1])
            order, limit = node[2], node[3]
            return self._order_limit_wrapper(parent, inner, order, limit)
        if k == 'union':
            a = self.c_query(parent, node[1])
            b = self.c_query(parent, node[2])
            all_ = node[3]

            def run(env):
                ca, ra = a(env)
                cb, rb = b(env)
                if len(ca) != len(cb):
                    raise MySQLError(1222, 'The used SELECT statements have a different number of columns')
                rows = ra + rb
                if not all_:
                    seen = set()
                    out = []
                    for r in rows:
                        key = tuple(x.casefold() if isinstance(x, str) else x for x in r)
                        if key not in seen:
                            seen.add(key)
                            out.append(r)
                    rows = out
                return ca, rows
            run.colnames = a.colnames
            run.correlated = True
            return self._order_limit_wrapper(parent, run, node[4], node[5])
        raise UnsupportedSQL(f'query node {k}')

    def _order_limit_wrapper(self, parent, inner, order, limit):
        if not order and not limit:
            return inner
        lim = self._c_limit(parent, limit)

        def run(env):
            cols, rows = inner(env)
            if order:
                lc = [c.lower() for c in cols]
                keys = []
                for e, desc in order:
                    if e[0] == 'col' and e[2].lower() in lc:
                        keys.append((lc.index(e[2].lower()), desc))
                    elif e[0] == 'lit' and isinstance(e[1], int):
                        keys.append((e[1] - 1, desc))
                    else:
                        raise UnsupportedSQL('ORDER BY expression on UNION')
                rows = _multisort(rows, [(lambda r, i=i: r[i], d) for i, d in keys])
            return cols, lim(env, rows)
        run.colnames = inner.colnames
        run.correlated = True
        return run

    def _c_limit(self, scope, limit):
        if not limit:
            return lambda env, rows: rows
        n = self.c_expr(scope, limit[0])
        off = self.c_expr(scope, limit[1]) if limit[1] is not None else None

        def f(env, rows):
            k = int(n(env))
            o = int(off(env)) if off is not None else 0
            return rows[o:o + k]
        return f

    # ---------------------------------------------------------------------------------------------
    def _flatten_from(self, refs, out):
        if refs[0] == 'join':
            _, kind, left, right, on, using = refs
            if using is not None:
                raise UnsupportedSQL('JOIN ... USING')
            if kind == 'RIGHT':
                raise UnsupportedSQL('RIGHT JOIN')
            self._flatten_from(left, out)
            if right[0] == 'join':
                if kind != 'INNER':
                    raise UnsupportedSQL('nested join on the right of an outer join')
                n0 = len(out)
                self._flatten_from(right, out)
                out[n0] = (out[n0][0], out[n0][1], on if out[n0][2] is None else ('and', out[n0][2], on))
                if on is not None and len(out) > n0 + 1:
                    # the ON may reference later tables of the nested join: attach it to the last one instead
                    first = out[n0]
                    out[n0] = (first[0], first[1], None)
                    last = out[-1]
                    out[-1] = (last[0], last[1], on if last[2] is None else ('and', last[2], on))
            else:
                out.append((kind, right, on))
        else:
            out.append(('INNER', refs, None))

    def _plan_source(self, scope, kind, fac, on, where_conj, first):
        """adds the source to the scope and returns (fetch, on_fn, is_left)."""
        k = len(scope.sources)
        eqs = []
        if fac[0] == 'table':
            name, alias = fac[1], fac[2]
            cte = scope.find_cte(name.lower())
            if cte is not None:
                cq, colnames = cte
                cache = {}

                def fetch_cte(env, cq=cq):
                    rt = env.rt
                    key = id(rt)
                    # materialise once per statement execution
                    hit = cache.get('v')
                    if hit is not None and hit[0] is rt and hit[1] == rt.eng.stmt_seq:
                        return hit[2]
                    e = env
                    cols, rows = cq(Env([], _root_env(env), rt))
                    cache['v'] = (rt, rt.eng.stmt_seq, rows)
                    return rows
                # column names: need one dry compile-time answer -> stored on the compiled query
                cols = colnames or cq.colnames
                scope.sources.append(Source(alias or name, cols))
                fetch = fetch_cte
            else:
                t = self.table(name)
                src = Source(alias or name, [c.lname for c in t.cols], t)
                # equality pushdown candidates
                cands = list(conjuncts(on))
                if kind == 'INNER':
                    cands += where_conj
                scope.sources.append(src)
                for c in cands:
                    if c[0] != 'cmp' or c[1] != '=':
                        continue
                    for a, b in ((c[2], c[3]), (c[3], c[2])):
                        j = self._local_col(scope, a, k)
                        if j is None:
                            continue
                        saved = (set(scope.touched), scope.touched_outer, scope.has_agg)
                        scope.touched = set()
                        try:
                            if _has_node(b, ('agg', 'window', 'uassign')):
                                raise MySQLError(0, 'skip')
                            f = self.c_expr(scope, b)
                            ok = all(i < k for i in scope.touched)
                        except (MySQLError, UnsupportedSQL):
                            ok = False
                            f = None
                        scope.touched, scope.touched_outer, scope.has_agg = saved[0] | (
                            scope.touched if ok else set()), saved[1] or scope.touched_outer, saved[2]
                        if ok:
                            eqs.append((j, f, t.cols[j]))
                            break
                if eqs:
                    # dedupe on column
                    seen = {}
                    for j, f, col in eqs:
                        seen.setdefault(j, (j, f, col))
                    eqs = sorted(seen.values(), key=lambda x: x[0])
                    cols_t = tuple(j for j, _, _ in eqs)

                    def fetch(env, t=t, eqs=eqs, cols_t=cols_t):
                        vals = []
                        for j, f, col in eqs:
                            v = f(env)
                            if v is None:
                                return ()
                            if not _compatible(col, v):
                                return list(t.rows.values())
                            vals.append(key_norm(col, v))
                        rows = t.rows
                        return [rows[r] for r in t.lookup(cols_t, tuple(vals))]
                else:
                    def fetch(env, t=t):
                        return list(t.rows.values())
        elif fac[0] == 'derived':
            _, q, alias, lateral, colnames = fac
            sub_parent = scope
            cq = self.c_query(sub_parent, q)
            cols = colnames or cq.colnames
            correlated = getattr(cq, 'correlated', True)
            scope.sources.append(Source(alias, cols))
            cache = {}

            def fetch(env, cq=cq, correlated=correlated):
                if not correlated:
                    hit = cache.get('v')
                    if hit is not None and hit[0] is env.rt and hit[1] == env.rt.eng.stmt_seq and hit[2] is env.outer:
                        return hit[3]
                _c, rows = cq(env)
                if not correlated:
                    cache['v'] = (env.rt, env.rt.eng.stmt_seq, env.outer, rows)
                return rows
        else:
            raise UnsupportedSQL(f'table factor {fac[0]}')
        on_fn = self.c_expr(scope, on) if on is not None else None
        return fetch, on_fn, kind == 'LEFT'

    def _local_col(self, scope, node, k):
        """column index if node is a column of source k (by alias or unambiguous unqualified name)."""
        if node[0] != 'col':
            return None
        lq = node[1].lower() if node[1] else None
        lname = node[2].lower()
        src = scope.sources[k]
        if lq is not None:
            if src.alias != lq or lname not in src.cols:
                return None
            return src.cols.index(lname)
        if scope.rvars is not None and lname in scope.rvars:
            return None
        if lname not in src.cols:
            return None
        for i, s in enumerate(scope.sources):
            if i != k and lname in s.cols:
                return None
        return src.cols.index(lname)

    # ---------------------------------------------------------------------------------------------
    def c_select(self, parent, node):
        _, distinct, items, refs, where, group, having, order, limit, into, lock = node
        scope = Scope(parent)
        scope.window_slots = {}
        scope.window_nodes = []
        steps = []
        where_conj = conjuncts(where)
        if refs is not None:
            flat = []
            self._flatten_from(refs, flat)
            for idx, (kind, fac, on) in enumerate(flat):
                steps.append(self._plan_source(scope, kind, fac, on, where_conj, idx == 0))
        nsrc = len(scope.sources)
        where_fn = self.c_expr(scope, where) if where is not None else None
        group_fns = None
        # select items
        scope.allow_agg = True
        out_names = []
        out_fns = []
        for it in items:
            if it[0] == 'star':
                q = it[1].lower() if it[1] else None
                found = False
                for i, src in enumerate(scope.sources):
                    if q is not None and src.alias != q:
                        continue
                    found = True
                    for j, c in enumerate(src.cols):
                        nm = ColName(src.table.cols[j].name if src.table is not None else c)
                        nm.table = src.table.name if src.table is not None else src.alias
                        out_names.append(nm)

                        def g(env, i=i, j=j):
                            r = env.rows[i]
                            return None if r is None else r[j]
                        out_fns.append(g)
                if not found:
                    raise MySQLError(1051, f"Unknown table '{it[1]}'")
            else:
                _, e, alias, text = it
                f = self.c_expr(scope, e)
                if alias is None:
                    alias = e[2] if e[0] == 'col' else text
                out_names.append(alias)
                out_fns.append(f)
                if it[2] is not None:
                    scope.aliases.setdefault(it[2].lower(), f)
        if group is not None:
            scope.allow_agg = False
            group_fns = []
            for g in group:
                if g[0] == 'lit' and isinstance(g[1], int):
                    group_fns.append(out_fns[g[1] - 1])
                else:
                    group_fns.append(self._c_with_alias_fallback(scope, g))
            scope.allow_agg = True
        scope.alias_first = True
        having_fn = self.c_expr(scope, having) if having is not None else None
        order_fns = None
        if order:
            order_fns = []
            for e, desc in order:
                if e[0] == 'lit' and isinstance(e[1], int):
                    f = out_fns[e[1] - 1]
                elif e[0] == 'col' and e[1] is None and e[2].lower() in scope.aliases:
                    f = scope.aliases[e[2].lower()]
                elif e[0] == 'col' and e[1] is None and \
                        sum(1 for nm in out_names if str(nm).lower() == e[2].lower()) == 1:
                    # "MySQL resolves unqualified column or alias references in ORDER BY clauses by searching in the
                    # select_expr values, then in the columns of the tables in the FROM clause" (13.2.13 SELECT):
                    # a column that the select list names exactly once (also through t.*) is that select column, even
                    # if several FROM tables have a column of that name
                    f = out_fns[next(i for i, nm in enumerate(out_names) if str(nm).lower() == e[2].lower())]
                else:
                    f = self.c_expr(scope, e)
                order_fns.append((f, desc))
        scope.alias_first = False
        scope.allow_agg = False
        grouped = group is not None or scope.has_agg
        lim = self._c_limit(scope, limit)
        windows = []
        for slot, wn in scope.window_nodes:
            windows.append((slot, self._c_window(scope, wn)))
        if windows and grouped:
            raise UnsupportedSQL('window function with GROUP BY')
        nwin = len(scope.window_slots)
        null_rows = [None] * nsrc

        def run(env, want_src=False):
            rt = env.rt
            combos = [[]]
            if steps:
                for si, (fetch, on_fn, is_left) in enumerate(steps):
                    new = []
                    for combo in combos:
                        base = combo + [None] * (nsrc - len(combo))
                        e = Env(base, env, rt)
                        matched = False
                        for r in fetch(e):
                            base[si] = r
                            if on_fn is None or truth(on_fn(e)):
                                new.append(combo + [r])
                                matched = True
                        if not matched and is_left:
                            new.append(combo + [None])
                    combos = new
            if where_fn is not None:
                combos = [c for c in combos if truth(where_fn(Env(c, env, rt)))]
            if grouped:
                if group_fns is not None:
                    groups = {}
                    for c in combos:
                        e = Env(c, env, rt)
                        key = tuple(_gkey(f(e)) for f in group_fns)
                        groups.setdefault(key, []).append(c)
                    glist = list(groups.values())
                else:
                    glist = [combos]
                envs = []
                for g in glist:
                    e = Env(g[0] if g else null_rows, env, rt, g)
                    if having_fn is not None and not truth(having_fn(e)):
                        continue
                    envs.append(e)
            else:
                if windows:
                    for c in combos:
                        c.append([None] * nwin)
                    for slot, wf in windows:
                        wf(combos, env, rt, slot)
                envs = [Env(c, env, rt) for c in combos]
                if having_fn is not None:
                    envs = [e for e in envs if truth(having_fn(e))]
            if order_fns:
                envs = _multisort(envs, order_fns)
            uvt = rt.sess.uv_trace if env.outer is None else None
            if uvt is not None:
                # INSERT ... SELECT with @v := ... in the select list and @v in ON DUPLICATE KEY UPDATE: remember
                # the user variables as of each produced row (row-by-row semantics, DESIGN.md 4.4)
                rows = []
                for e in envs:
                    rows.append([f(e) for f in out_fns])
                    uvt.append(dict(rt.sess.uvars))
            else:
                rows = [[f(e) for f in out_fns] for e in envs]
            if want_src:
                if distinct or grouped:
                    raise UnsupportedSQL('source rows of a DISTINCT/grouped select')
                return lim(env, [(r, e.rows) for r, e in zip(rows, envs)])
            if distinct:
                seen = set()
                out = []
                for r in rows:
                    key = tuple(_gkey(x) for x in r)
                    if key not in seen:
                        seen.add(key)
                        out.append(r)
                rows = out
            rows = lim(env, rows)
            return out_names, rows

        run.colnames = out_names
        run.with_sources = lambda env: run(env, True)
        run.correlated = scope.touched_outer or _subtree_correlated(scope)
        run.into = into
        run.lock = lock
        run.scope = scope
        return run

    def _c_with_alias_fallback(self, scope, e):
        return self.c_expr(scope, e)

    def _c_window(self, scope, wn):
        _, inner, part, order = wn
        part_fns = [self.c_expr(scope, p) for p in part] if part else []
        order_fns = [(self.c_expr(scope, e), d) for e, d in order] if order else []
        if inner[0] == 'winfunc' and inner[1] == 'ROW_NUMBER':
            def wf(combos, env, rt, slot):
                parts = {}
                for c in combos:
                    e = Env(c, env, rt)
                    parts.setdefault(tuple(_gkey(f(e)) for f in part_fns), []).append(e)
                for es in parts.values():
                    if order_fns:
                        es = _multisort(es, order_fns)
                    for i, e in enumerate(es):
                        e.rows[-1][slot] = i + 1
            return wf
        raise UnsupportedSQL(f'window function {inner[1]}')

    # ---- top-level SELECT execution (INTO handling) --------------------------------------------
    def c_select_stmt(self, scope, node):
        q = self.c_query(scope, node)
        into = getattr(q, 'into', None)
        if node[0] == 'select' and node[9]:
            into = node[9]
        setters = None
        if into:
            setters = [self._c_setter(scope, t) for t in into]

        def run(rt):
            env = Env([], None, rt)
            cols, rows = q(env)
            rt.sess.found_rows = len(rows)
            if setters is not None:
                if not rows:
                    raise NotFound()
                if len(rows) > 1:
                    raise MySQLError(1172, 'Result consisted of more than one row', '42000')
                if len(rows[0]) != len(setters):
                    raise MySQLError(1222, 'The used SELECT statements have a different number of columns')
                for s, v in zip(setters, rows[0]):
                    s(rt, v)
                rt.sess.row_count = 1
                return None
            rt.sess.row_count = -1
            return (cols, rows)
        return run


def _root_env(env):
    return Env([], None, env.rt)


def _gkey(v):
    if isinstance(v, str):
        return v.casefold()
    if isinstance(v, D):
        return int(v) if v == v.to_integral_value() else float(v)
    return v


def _has_node(n, kinds):
    if isinstance(n, tuple):
        if n and isinstance(n[0], str) and n[0] in kinds:
            return True
        return any(_has_node(x, kinds) for x in n)
    if isinstance(n, list):
        return any(_has_node(x, kinds) for x in n)
    return False


def _subtree_correlated(scope):
    return scope.touched_outer


def _multisort(items, keyfns):
    """stable multi-key sort with per-key direction; keyfns: [(fn(item)->value, desc)]."""
    def cmp(a, b):
        for (ka, kb, desc) in zip(a[1], b[1], dirs):
            if ka < kb:
                return 1 if desc else -1
            if ka > kb:
                return -1 if desc else 1
        return 0
    dirs = [d for _, d in keyfns]
    decorated = [(it, [sort_key(f(it)) for f, _ in keyfns]) for it in items]
    decorated.sort(key=functools.cmp_to_key(cmp))
    return [it for it, _ in decorated]
