"""Fake `aiomysql` / `pymysql` modules on top of the engine: pool, connections, DictCursor, error classes,
serial-transaction lock with simulated lock-wait timeout, seeded latencies and injected faults.

Isolation model (DESIGN.md 4.3): write transactions are serialised by one global lock taken at the first
write / locking read of a transaction and released at commit / rollback; plain SELECTs run atomically at one
instant (statement-level lock).  Every execution is therefore a serial execution of transactions.
"""
import asyncio
import collections

from .errors import MySQLError


# ---- pymysql.err ---------------------------------------------------------------------------------
class PyMySQLError(Exception):
    pass


class Warning_(Warning, PyMySQLError):
    pass


class Error(PyMySQLError):
    pass


class InterfaceError(Error):
    pass


class DatabaseError(Error):
    pass


class DataError(DatabaseError):
    pass


class OperationalError(DatabaseError):
    pass


class IntegrityError(DatabaseError):
    pass


class InternalError(DatabaseError):
    pass


class ProgrammingError(DatabaseError):
    pass


class NotSupportedError(DatabaseError):
    pass


_ERROR_MAP = {}
for _cls, _codes in (
        (ProgrammingError, (1007, 1149, 1064, 1146, 1102, 1103, 1110, 1111, 1112, 1113, 1179, 1166)),
        (DataError, (1265, 1263, 1264, 1230, 1171, 1406, 1441, 1366, 1367)),
        (IntegrityError, (1062, 1216, 1452, 1217, 1451, 1215, 1048)),
        (NotSupportedError, (1196, 1235, 1289, 1286)),
        (OperationalError, (1044, 1045, 1040, 1142, 1143, 4025, 1213))):
    for _c in _codes:
        _ERROR_MAP[_c] = _cls


def to_client_error(e):
    """pymysql.err.raise_mysql_exception: explicit map, else InternalError (< 1000) / OperationalError."""
    cls = _ERROR_MAP.get(e.errno)
    if cls is None:
        cls = InternalError if e.errno < 1000 else OperationalError
    return cls(e.errno, e.msg)


# ---- server ---------------------------------------------------------------------------------------
class Server:
    """the simulated MySQL server of one world."""

    LOCK_WAIT_TIMEOUT = 50.0

    def __init__(self, eng, latency=None, fault=None, max_connections=1000, log=None):
        self.eng = eng
        self.latency = latency or (lambda what: 0.0)
        self.fault = fault or (lambda site, conn: None)  # returns None or a fault name
        self.owner = None
        self.waiters = collections.deque()
        self.n_conns = 0
        self.max_connections = max_connections
        self.conns = []
        self.log = log
        self.on_sql_error = None  # callable(query, args, MySQLError): server-side (not injected) statement errors
        self.after_stmt = None  # callable(conn, query, kind) after every successfully executed statement
        self.stats = {'lock_waits': 0, 'lock_timeouts': 0, 'statements': 0}

    async def lock(self, sess):
        if self.owner is sess:
            return
        if self.owner is None and not self.waiters:
            self.owner = sess
            return
        loop = asyncio.get_running_loop()
        fut = loop.create_future()
        self.waiters.append((sess, fut))
        self.stats['lock_waits'] += 1
        try:
            await asyncio.wait_for(fut, self.LOCK_WAIT_TIMEOUT)
        except asyncio.TimeoutError:
            self.stats['lock_timeouts'] += 1
            self._drop_waiter(fut)
            raise MySQLError(1205, 'Lock wait timeout exceeded; try restarting transaction') from None
        except BaseException:
            self._drop_waiter(fut)
            if self.owner is sess:
                self.unlock(sess)
            raise

    def _drop_waiter(self, fut):
        for i, (_s, f) in enumerate(self.waiters):
            if f is fut:
                del self.waiters[i]
                break

    def unlock(self, sess):
        if self.owner is not sess:
            return
        self.owner = None
        while self.waiters:
            s, fut = self.waiters.popleft()
            if fut.done():
                continue
            self.owner = s
            fut.set_result(None)
            break

    def kill_session(self, sess):
        """the client died: roll back, release the lock."""
        if not sess.closed:
            self.eng.rollback(sess)
            sess.closed = True
        self.unlock(sess)

    def kill_proc(self, proc):
        """a client PROCESS crashed: every connection it had is reset -- open transactions roll back, its lock is
        released and its lock waiters are forgotten (nothing of that process will ever run again)."""
        self.waiters = collections.deque((s, f) for s, f in self.waiters if getattr(s, 'proc', None) != proc)
        n = 0
        for c in list(self.conns):
            if getattr(c, 'proc', None) == proc and not c.closed:
                c.dead = True
                c.closed = True
                self.kill_session(c.sess)
                n += 1
        return n


class LostConnection(Exception):
    pass


# ---- aiomysql -------------------------------------------------------------------------------------
class DictCursor:
    def __init__(self, conn):
        self.connection = conn
        self._rows = []
        self._pos = 0
        self.rowcount = -1
        self.lastrowid = None
        self.description = None

    async def __aenter__(self):
        return self

    async def __aexit__(self, *exc):
        self._rows = []
        return False

    async def close(self):
        self._rows = []

    async def execute(self, query, args=None):
        res = await self.connection._run(query, args)
        self._load(res)
        return self.rowcount

    async def executemany(self, query, args):
        if not args:
            return None
        total = 0
        for a in args:
            res = await self.connection._run(query, a, many=True)
            total += res.affected
        self._rows = []
        self._pos = 0
        self.rowcount = total
        return total

    def _load(self, res):
        if res.cols is not None:
            # pymysql DictCursor: a column whose name was already used is keyed "<table>.<name>"
            cols = []
            seen = set()
            for c in res.cols:
                k = str(c)
                if k in seen:
                    t = getattr(c, 'table', None)
                    k = f'{t}.{k}' if t else k
                seen.add(k)
                cols.append(k)
            self._rows = [dict(zip(cols, r)) for r in res.rows]
            self.rowcount = len(self._rows)
            self.description = tuple((c,) for c in cols)
        else:
            self._rows = []
            self.rowcount = res.affected
            self.description = None
        self._pos = 0
        self.lastrowid = res.lastrowid

    async def fetchone(self):
        if self._pos >= len(self._rows):
            return None
        r = self._rows[self._pos]
        self._pos += 1
        return r

    async def fetchmany(self, size=None):
        size = size or 1
        out = self._rows[self._pos:self._pos + size]
        self._pos += len(out)
        return out

    async def fetchall(self):
        out = self._rows[self._pos:]
        self._pos = len(self._rows)
        return out


class _CursorCtx:
    def __init__(self, conn):
        self._cur = DictCursor(conn)

    def __await__(self):
        async def f():
            return self._cur
        return f().__await__()

    async def __aenter__(self):
        return self._cur

    async def __aexit__(self, *exc):
        await self._cur.close()
        return False


class Connection:
    def __init__(self, server, autocommit=False):
        self.server = server
        self.sess = server.eng.session()
        self.sess.autocommit = autocommit
        try:
            from simkit.loop import PROC
            self.proc = PROC.get('main')
        except Exception:  # pylint: disable=broad-except
            self.proc = 'main'
        self.sess.proc = self.proc  # the simulated process that owns this connection (see Server.kill_proc)
        self.dead = False
        self.closed = False
        server.conns.append(self)

    def cursor(self, *a, **k):
        return _CursorCtx(self)

    async def _run(self, query, args, many=False):
        srv = self.server
        eng = srv.eng
        sess = self.sess
        if self.dead or self.closed:
            raise InterfaceError(0, 'Not connected')
        srv.stats['statements'] += 1
        self.cur_query = query  # lets the fault hook bias faults by statement
        self.cur_args = args
        lat = srv.latency('stmt')
        if lat:
            await asyncio.sleep(lat)
        f = srv.fault('pre', self)
        if f is not None:
            self._inject(f, applied=False)
        try:
            kind = eng.classify(_norm(query, args))
        except MySQLError as e:
            raise to_client_error(e) from None
        holding = srv.owner is sess
        try:
            if not holding:
                await srv.lock(sess)
        except MySQLError as e:
            # lock wait timeout: statement rolled back (nothing ran), transaction stays open
            raise to_client_error(e) from None
        try:
            res = eng.execute(sess, _norm(query, args), args)
        except MySQLError as e:
            if e.errno == 1213:
                eng.rollback(sess)
            self._after(kind, holding)
            if srv.on_sql_error is not None:
                srv.on_sql_error(query, args, e)
            raise to_client_error(e) from None
        except BaseException:
            self._after(kind, holding)
            raise
        self._after(kind, holding)
        if srv.after_stmt is not None:
            # lets a world place a fault right after a statement of an in-flight transaction (never draws a choice)
            srv.after_stmt(self, query, kind)
        f = srv.fault('post', self)
        if f is not None:
            self._inject(f, applied=True)
        return res

    def _after(self, kind, was_holding):
        srv, sess = self.server, self.sess
        if srv.owner is not sess:
            return
        if kind == 'read' and not was_holding and not sess.journal:
            srv.unlock(sess)
        elif not sess.in_txn and not sess.journal:
            srv.unlock(sess)
        elif kind == 'txn' and not sess.journal and not was_holding:
            srv.unlock(sess)

    def _inject(self, fault, applied):
        srv, sess = self.server, self.sess
        if fault == 'deadlock':
            srv.eng.rollback(sess)
            srv.unlock(sess)
            raise OperationalError(1213, 'Deadlock found when trying to get lock; try restarting transaction')
        if fault == 'lock_timeout':
            # only the statement is rolled back; when injected "pre" nothing ran yet
            raise to_client_error(MySQLError(1205, 'Lock wait timeout exceeded; try restarting transaction'))
        if fault == 'lost_conn':
            self.dead = True
            srv.kill_session(sess)
            raise OperationalError(2013, 'Lost connection to MySQL server during query')
        if fault == 'fatal':
            # a NON-transient server error before the statement ran (e.g. ER_OUT_OF_RESOURCES): the statement has no
            # effect, the transaction stays open, the client library must NOT retry it
            raise to_client_error(MySQLError(1041, 'Out of memory; check if mysqld or some other process uses all '
                                                   'available memory'))
        raise AssertionError(fault)

    async def begin(self):
        await self._run('START TRANSACTION', None)

    async def commit(self):
        if self.dead:
            raise InterfaceError(0, 'Not connected')
        srv = self.server
        lat = srv.latency('commit')
        if lat:
            await asyncio.sleep(lat)
        f = srv.fault('commit', self)
        if f == 'lost_conn_before_commit':
            self.dead = True
            srv.kill_session(self.sess)
            raise OperationalError(2013, 'Lost connection to MySQL server during query')
        srv.eng.commit(self.sess)
        srv.unlock(self.sess)
        if f == 'lost_conn_after_commit':
            self.dead = True
            srv.kill_session(self.sess)
            raise OperationalError(2013, 'Lost connection to MySQL server during query')

    async def rollback(self):
        if self.dead:
            # leniency rule (DESIGN.md 4.3): rollback on a dead connection succeeds silently
            return
        srv = self.server
        lat = srv.latency('commit')
        if lat:
            await asyncio.sleep(lat)
        srv.eng.rollback(self.sess)
        srv.unlock(self.sess)

    def close(self):
        if not self.closed:
            self.closed = True
            self.server.kill_session(self.sess)

    async def ensure_closed(self):
        self.close()

    async def ping(self, reconnect=True):
        return None


def _norm(query, args):
    # pymysql formats the query with `%` when args are given: '%%' becomes '%'
    if args is not None and '%%' in query:
        return query.replace('%%', '%')
    return query


class _PoolAcquireCtx:
    def __init__(self, pool):
        self._pool = pool
        self._conn = None

    async def __aenter__(self):
        self._conn = await self._pool._acquire()
        return self._conn

    async def __aexit__(self, *exc):
        conn, self._conn = self._conn, None
        if conn is not None:
            self._pool.release(conn)
        return False

    def __await__(self):
        return self._pool._acquire().__await__()


class Pool:
    def __init__(self, server, maxsize=10, autocommit=False, **_kw):
        self.server = server
        self.maxsize = maxsize
        self.autocommit = autocommit
        self._free = collections.deque()
        self._used = set()
        self._waiters = collections.deque()
        self._closed = False
        self._n = 0

    def acquire(self):
        return _PoolAcquireCtx(self)

    async def _acquire(self):
        srv = self.server
        while True:
            while self._free:
                c = self._free.popleft()
                if not c.dead and not c.closed:
                    self._used.add(c)
                    return c
                self._n -= 1
            if self._n < self.maxsize:
                lat = srv.latency('connect')
                if lat:
                    await asyncio.sleep(lat)
                f = srv.fault('connect', None)
                if f == 'too_many_conn':
                    raise OperationalError(1040, 'Too many connections')
                if f == 'cant_connect':
                    raise OperationalError(2003, "Can't connect to MySQL server on 'db'")
                c = Connection(srv, self.autocommit)
                self._n += 1
                self._used.add(c)
                return c
            fut = asyncio.get_running_loop().create_future()
            self._waiters.append(fut)
            try:
                await fut
            except BaseException:
                if fut in self._waiters:
                    self._waiters.remove(fut)
                raise

    def release(self, conn):
        self._used.discard(conn)
        if conn.dead or conn.closed:
            self._n -= 1
        else:
            # a connection returned with an open transaction is rolled back (aiomysql does the same)
            if conn.sess.in_txn or conn.sess.journal:
                self.server.eng.rollback(conn.sess)
            self.server.unlock(conn.sess)
            self._free.append(conn)
        while self._waiters:
            fut = self._waiters.popleft()
            if not fut.done():
                fut.set_result(None)
                break

    def close(self):
        self._closed = True

    def terminate(self):
        self._closed = True

    async def wait_closed(self):
        for c in list(self._free) + list(self._used):
            c.close()

    async def clear(self):
        pass

    @property
    def size(self):
        return self._n

    @property
    def freesize(self):
        return len(self._free)


class _PoolContextManager:
    def __init__(self, pool):
        self._pool = pool

    def __await__(self):
        async def f():
            return self._pool
        return f().__await__()

    async def __aenter__(self):
        return self._pool

    async def __aexit__(self, *exc):
        self._pool.close()
        await self._pool.wait_closed()
        return False


CURRENT_SERVER = [None]


def create_pool(**kw):
    srv = CURRENT_SERVER[0]
    if srv is None:
        raise RuntimeError('no simulated MySQL server registered')
    return _PoolContextManager(Pool(srv, maxsize=kw.get('maxsize', 10), autocommit=kw.get('autocommit', False)))


def install():
    """register fake `pymysql` and `aiomysql` modules (idempotent)."""
    from simkit.shim import fake_module
    err = fake_module('pymysql.err', MySQLError=PyMySQLError, Error=Error, InterfaceError=InterfaceError,
                      DatabaseError=DatabaseError, DataError=DataError, OperationalError=OperationalError,
                      IntegrityError=IntegrityError, InternalError=InternalError, ProgrammingError=ProgrammingError,
                      NotSupportedError=NotSupportedError, Warning=Warning_)
    constants = fake_module('pymysql.constants')
    fake_module('pymysql', err=err, constants=constants, MySQLError=PyMySQLError, Error=Error,
                InterfaceError=InterfaceError, DatabaseError=DatabaseError, DataError=DataError,
                OperationalError=OperationalError, IntegrityError=IntegrityError, InternalError=InternalError,
                ProgrammingError=ProgrammingError, NotSupportedError=NotSupportedError)
    cursors = fake_module('aiomysql.cursors', DictCursor=DictCursor, Cursor=DictCursor)
    utils = fake_module('aiomysql.utils', _PoolContextManager=_PoolContextManager,
                        _PoolAcquireContextManager=_PoolAcquireCtx)
    fake_module('aiomysql', create_pool=create_pool, Pool=Pool, Connection=Connection, cursors=cursors, utils=utils,
                DictCursor=DictCursor)
