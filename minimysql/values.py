"""SQL value semantics: three-valued logic, comparison with coercion, arithmetic."""
import datetime
import decimal
import re

D = decimal.Decimal
_numprefix = re.compile(r'\s*[+-]?(?:\d+\.?\d*(?:[eE][+-]?\d+)?|\.\d+(?:[eE][+-]?\d+)?)')


def str_to_num(s):
    m = _numprefix.match(s)
    if not m:
        return 0
    t = m.group(0).strip()
    try:
        return int(t)
    except ValueError:
        return float(t)


def to_num(v):
    if v is None:
        return None
    if isinstance(v, bool):
        return int(v)
    if isinstance(v, (int, float, D)):
        return v
    if isinstance(v, str):
        return str_to_num(v)
    if isinstance(v, bytes):
        return str_to_num(v.decode('utf-8', 'replace'))
    if isinstance(v, datetime.datetime):
        return int(v.strftime('%Y%m%d%H%M%S'))
    if isinstance(v, datetime.date):
        return int(v.strftime('%Y%m%d'))
    raise TypeError(f'cannot convert {v!r} to number')


def truth(v):
    """SQL truth value: None (unknown), True, False."""
    if v is None:
        return None
    if isinstance(v, str):
        return str_to_num(v) != 0
    return v != 0


def b2i(t):
    return None if t is None else (1 if t else 0)


def _align(a, b):
    if isinstance(a, float) and isinstance(b, D):
        return a, float(b)
    if isinstance(a, D) and isinstance(b, float):
        return float(a), b
    return a, b


def compare(a, b, cs=False):
    """-1/0/1 or None if either is NULL."""
    if a is None or b is None:
        return None
    ta, tb = type(a), type(b)
    if ta is str and tb is str:
        if not cs:
            a, b = a.casefold(), b.casefold()
        return -1 if a < b else (1 if a > b else 0)
    if isinstance(a, (datetime.date, datetime.datetime)) or isinstance(b, (datetime.date, datetime.datetime)):
        a, b = _to_dt(a), _to_dt(b)
        return -1 if a < b else (1 if a > b else 0)
    if ta is str or ta is bytes:
        a = to_num(a)
        if isinstance(a, int) and isinstance(b, float):
            a = float(a)
    if tb is str or tb is bytes:
        b = to_num(b)
    if ta is bool:
        a = int(a)
    if tb is bool:
        b = int(b)
    a, b = _align(a, b)
    return -1 if a < b else (1 if a > b else 0)


def _to_dt(v):
    if isinstance(v, datetime.datetime):
        return v
    if isinstance(v, datetime.date):
        return datetime.datetime(v.year, v.month, v.day)
    if isinstance(v, str):
        try:
            return datetime.datetime.fromisoformat(v)
        except ValueError:
            return datetime.datetime.fromisoformat(v[:10])
    if isinstance(v, int):
        s = str(v)
        return datetime.datetime.strptime(s[:8], '%Y%m%d')
    raise TypeError(f'cannot compare {v!r} with a date')


def arith(op, a, b):
    if a is None or b is None:
        return None
    a, b = to_num(a), to_num(b)
    a, b = _align(a, b)
    if op == '+':
        return a + b
    if op == '-':
        return a - b
    if op == '*':
        return a * b
    if op == '/':
        if b == 0:
            return None
        if isinstance(a, float) or isinstance(b, float):
            return a / b
        # exact numeric division yields DECIMAL (scale +4) in MySQL
        q = D(a) / D(b)
        return q
    if op == 'DIV':
        if b == 0:
            return None
        q = D(str(a)) / D(str(b)) if not (isinstance(a, int) and isinstance(b, int)) else None
        if q is None:
            r = abs(a) // abs(b)
            return r if (a >= 0) == (b >= 0) else -r
        return int(q.to_integral_value(rounding=decimal.ROUND_DOWN))
    if op in ('%', 'MOD'):
        if b == 0:
            return None
        if isinstance(a, int) and isinstance(b, int):
            r = abs(a) % abs(b)
            return r if a >= 0 else -r
        import math
        return math.fmod(a, b)
    if op == '|':
        return int(a) | int(b)
    if op == '&':
        return int(a) & int(b)
    if op == '^':
        return int(a) ^ int(b)
    if op == '<<':
        return (int(a) << int(b)) & 0xFFFFFFFFFFFFFFFF
    if op == '>>':
        return int(a) >> int(b)
    raise ValueError(op)


def like_to_regex(pat, esc='\\'):
    out = []
    i = 0
    while i < len(pat):
        c = pat[i]
        if c == esc and i + 1 < len(pat):
            out.append(re.escape(pat[i + 1]))
            i += 2
            continue
        if c == '%':
            out.append('.*')
        elif c == '_':
            out.append('.')
        else:
            out.append(re.escape(c))
        i += 1
    return re.compile(''.join(out) + r'\Z', re.S | re.I)


def sort_key(v):
    """total order for ORDER BY: NULLs first."""
    if v is None:
        return (0, 0)
    if isinstance(v, str):
        return (2, v.casefold())
    if isinstance(v, bool):
        return (1, int(v))
    if isinstance(v, (int, float, D)):
        return (1, v)
    if isinstance(v, datetime.datetime):
        return (3, v)
    if isinstance(v, datetime.date):
        return (3, datetime.datetime(v.year, v.month, v.day))
    return (4, str(v))
