"""Tokenizer for the MySQL subset used by hail's batch service."""
import re


class SQLSyntaxError(Exception):
    pass


class UnsupportedSQL(Exception):
    """construct outside the implemented subset: harness error, never skipped."""


T_IDENT, T_QIDENT, T_STR, T_NUM, T_OP, T_PARAM, T_UVAR, T_EOF = 'id', 'qid', 'str', 'num', 'op', 'param', 'uvar', 'eof'

_ws = re.compile(r'(?:\s+|#[^\n]*|--[ \t][^\n]*|--\n|/\*.*?\*/)+', re.S)
_num = re.compile(r'(?:\d+\.\d*|\.\d+|\d+)(?:[eE][+-]?\d+)?')
_ident = re.compile(r'[A-Za-z_][A-Za-z0-9_$]*')
_ops = ['<=>', ':=', '<=', '>=', '<>', '!=', '||', '&&', '<<', '>>', '->>', '->',
        '(', ')', ',', ';', ':', '=', '<', '>', '+', '-', '*', '/', '%', '.', '!', '&', '|', '^', '~']
_esc = {'n': '\n', 't': '\t', 'r': '\r', '0': '\0', 'b': '\b', 'Z': '\x1a', '\\': '\\', "'": "'", '"': '"',
        '%': '\\%', '_': '\\_'}


class Tok:
    __slots__ = ('t', 'v', 'pos', 'u')

    def __init__(self, t, v, pos):
        self.t = t
        self.v = v
        self.pos = pos
        self.u = v.upper() if t == T_IDENT else None

    def __repr__(self):
        return f'{self.t}:{self.v!r}'


def tokenize(s):
    toks = []
    i = 0
    n = len(s)
    while i < n:
        m = _ws.match(s, i)
        if m:
            i = m.end()
            if i >= n:
                break
        c = s[i]
        if c == '`':
            j = s.index('`', i + 1)
            toks.append(Tok(T_QIDENT, s[i + 1:j], i))
            i = j + 1
        elif c in '\'"':
            q = c
            j = i + 1
            buf = []
            while True:
                if j >= n:
                    raise SQLSyntaxError(f'unterminated string at {i}')
                ch = s[j]
                if ch == '\\' and j + 1 < n:
                    buf.append(_esc.get(s[j + 1], s[j + 1]))
                    j += 2
                elif ch == q:
                    if j + 1 < n and s[j + 1] == q:
                        buf.append(q)
                        j += 2
                    else:
                        break
                else:
                    buf.append(ch)
                    j += 1
            toks.append(Tok(T_STR, ''.join(buf), i))
            i = j + 1
        elif c == '%' and i + 1 < n and s[i + 1] == 's':
            toks.append(Tok(T_PARAM, '%s', i))
            i += 2
        elif c == '%' and i + 1 < n and s[i + 1] == '(':
            j = s.index(')', i)
            if s[j + 1] != 's':
                raise SQLSyntaxError('bad named placeholder')
            toks.append(Tok(T_PARAM, s[i + 2:j], i))
            i = j + 2
        elif c == '%' and i + 1 < n and s[i + 1] == '%':
            toks.append(Tok(T_OP, '%', i))
            i += 2
        elif c == '@':
            m = _ident.match(s, i + 1)
            if not m:
                raise SQLSyntaxError(f'bad user variable at {i}')
            toks.append(Tok(T_UVAR, m.group(0).lower(), i))
            i = m.end()
        elif c.isdigit() or (c == '.' and i + 1 < n and s[i + 1].isdigit()):
            m = _num.match(s, i)
            toks.append(Tok(T_NUM, m.group(0), i))
            i = m.end()
        elif c.isalpha() or c == '_':
            m = _ident.match(s, i)
            toks.append(Tok(T_IDENT, m.group(0), i))
            i = m.end()
        else:
            for op in _ops:
                if s.startswith(op, i):
                    toks.append(Tok(T_OP, op, i))
                    i += len(op)
                    break
            else:
                raise SQLSyntaxError(f'unexpected character {c!r} at {i}: {s[max(0, i - 30):i + 30]!r}')
    toks.append(Tok(T_EOF, '', n))
    return toks
