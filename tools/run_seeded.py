#!/venv/bin/python
"""Run checks against a seeded change: usage run_seeded.py <seeded name> <check id> [<check id> ...] [--tier quick]

Applies /verif/seeded/<name>/patch.diff in a scratch worktree of /repo HEAD (under /tmp, removed afterwards) and runs
./vcheck <id> <tier> with HAIL_REPO_ROOT pointing at it (so /repo itself is never modified and concurrent work is not
disturbed).  Records the outcome in the change's meta.json under "detected_by".
"""
import json
import os
import subprocess
import sys

args = [a for a in sys.argv[1:] if not a.startswith('--')]
tier = 'quick'
if '--tier' in sys.argv:
    tier = sys.argv[sys.argv.index('--tier') + 1]
    args = [a for a in args if a != tier]
name, ids = args[0], args[1:]
d = os.path.join('/verif/seeded', name)
wt = f'/tmp/wt-seeded-{name}'
subprocess.run(['git', '-C', '/repo', 'worktree', 'remove', '--force', wt], capture_output=True)
subprocess.run(['git', '-C', '/repo', 'worktree', 'add', '-q', '--detach', wt, 'HEAD'], check=True)
out = {}
try:
    pf = os.path.join(d, 'patch.diff')
    if subprocess.run(['git', '-C', wt, 'apply', pf], capture_output=True).returncode != 0:
        # the tree has moved on since the change was filed (e.g. a later fix added a build.yaml entry next to the one
        # the change adds): retry with less context; the change itself is applied unmodified or not at all
        subprocess.run(['git', '-C', wt, 'apply', '-C1', '--recount', pf], check=True)
        out['_note'] = 'applied with reduced context (tree changed since the change was filed)'
    for cid in ids:
        env = dict(os.environ, HAIL_REPO_ROOT=wt, VERIF_EVIDENCE_DIR='/tmp/seeded-evidence', VERIF_SHRINK_S='10')
        p = subprocess.run(['./vcheck', cid, tier], cwd='/verif', env=env, capture_output=True, text=True)
        v = [l for l in p.stdout.splitlines() if l.startswith('VIOLATION')]
        out[cid] = {'tier': tier, 'exit': p.returncode, 'violations': [l.split('replay=')[1].split('/')[-1] for l in v]}
        print(cid, p.returncode, v[:3])
        if p.returncode == 2:
            print(p.stdout[-1500:])
finally:
    subprocess.run(['git', '-C', '/repo', 'worktree', 'remove', '--force', wt], capture_output=True)
mp = os.path.join(d, 'meta.json')
meta = json.load(open(mp))
db = meta.get('detected_by')
if not isinstance(db, dict):
    db = {}
note = out.pop('_note', None)
if note:
    meta['apply_note'] = note
db.update(out)
meta['detected_by'] = db
meta['detected'] = any(isinstance(v, dict) and v.get('exit') == 1 for v in db.values())
json.dump(meta, open(mp, 'w'), indent=1)
