#!/venv/bin/python
"""Confirm a seeded change independently and file it under /verif/seeded/<name>/.

usage: confirm_mutant.py <property> <src dir with patch.diff demo.py notes.md> <name> [check-result ...]
Steps (in a scratch worktree under /tmp, removed afterwards): patch applies to HEAD; python files touched compile;
the pinned suite still passes (63 tests); demo exits 0 without the patch and non-zero with it.
"""
import json
import os
import shutil
import subprocess
import sys

base = 'HEAD'
if '--base' in sys.argv:
    i = sys.argv.index('--base'); base = sys.argv[i + 1]; del sys.argv[i:i + 2]
prop, src, name = sys.argv[1:4]
wt = f'/tmp/wt-confirm-{name}'
subprocess.run(['git', '-C', '/repo', 'worktree', 'remove', '--force', wt], capture_output=True)
subprocess.run(['git', '-C', '/repo', 'worktree', 'add', '-q', '--detach', wt, base], check=True)
res = {}
try:
    has_demo = os.path.exists(os.path.join(src, 'demo.py'))

    def demo():
        if not has_demo:
            return None, 'no executable demo (SQL change: scenario.md)'
        p = subprocess.run(['/venv/bin/python', os.path.join(src, 'demo.py'), wt], capture_output=True, text=True,
                           timeout=300, cwd=src)
        return p.returncode, (p.stdout + p.stderr)[-400:]
    res['demo_clean_rc'], res['demo_clean_out'] = demo()
    p = subprocess.run(['git', '-C', wt, 'apply', os.path.join(src, 'patch.diff')], capture_output=True, text=True)
    res['applies'] = p.returncode == 0
    files = subprocess.run(['git', '-C', wt, 'diff', '--name-only'], capture_output=True, text=True).stdout.split()
    res['files'] = files
    ok = True
    for f in files:
        if f.endswith('.py'):
            ok &= subprocess.run(['/venv/bin/python', '-m', 'py_compile', os.path.join(wt, f)],
                                 capture_output=True).returncode == 0
    res['compiles'] = ok
    t = subprocess.run(['/venv/bin/python', '-m', 'pytest', '-q', '-p', 'no:cacheprovider', 'auth/test'], cwd=wt,
                       capture_output=True, text=True)
    res['tests'] = t.stdout.strip().splitlines()[-1] if t.stdout.strip() else t.stderr[-200:]
    res['tests_pass'] = '63 passed' in res['tests']
    res['demo_mut_rc'], res['demo_mut_out'] = demo()
finally:
    subprocess.run(['git', '-C', '/repo', 'worktree', 'remove', '--force', wt], capture_output=True)
    subprocess.run(['find', '/repo', '-name', '__pycache__', '-path', '*wt-confirm*'], capture_output=True)
res['confirmed'] = bool(res.get('applies') and res.get('compiles') and res.get('tests_pass')
                        and ((not has_demo and os.path.exists(os.path.join(src, 'scenario.md')))
                             or (res.get('demo_clean_rc') == 0 and res.get('demo_mut_rc', 0) != 0)))
print(json.dumps(res, indent=1))
if res['confirmed']:
    dst = os.path.join('/verif/seeded', name)
    os.makedirs(dst, exist_ok=True)
    for f in ('patch.diff', 'demo.py', 'notes.md', 'scenario.md'):
        if os.path.exists(os.path.join(src, f)):
            shutil.copy(os.path.join(src, f), dst)
    meta = {'property': prop, 'files': res['files'], 'confirmed_against_commit': base,
            'needs': open(os.path.join(src, 'notes.md')).read()[:1500] if os.path.exists(os.path.join(src, 'notes.md')) else '',
            'confirmed': {'patch_applies': True, 'compiles': True, 'pinned_suite': res['tests'],
                          'demo_exit_clean': res['demo_clean_rc'], 'demo_exit_with_change': res['demo_mut_rc']},
            'ran': ['git apply patch.diff (scratch worktree of /repo HEAD under /tmp)',
                    '/venv/bin/python -m pytest -q -p no:cacheprovider auth/test',
                    '/venv/bin/python demo.py <tree> (clean and changed)'],
            'detected_by': sys.argv[4:]}
    json.dump(meta, open(os.path.join(dst, 'meta.json'), 'w'), indent=1)
sys.exit(0 if res['confirmed'] else 1)
