#!/bin/bash
# re-run every filed seeded change against the check(s) of its property (and cross-property checks recorded before)
cd /verif
for d in seeded/*/; do
  n=$(basename $d); p=${n%-*}
  [ -f $d/meta.json ] || continue
  ids=$(/venv/bin/python - <<PY
import json
m=json.load(open('$d/meta.json'))
ids=set((m.get('detected_by') or {}).keys()) | {'$p'}
print(' '.join(sorted(ids)))
PY
)
  applies=$(/venv/bin/python -c "import json;print((json.load(open('$d/meta.json')).get('confirmed') or {}).get('patch_applies'))")
  echo "== $n ($ids)"
  timeout 2400 /venv/bin/python tools/run_seeded.py $n $ids 2>&1 | grep -E "^C[0-9]+ [0-9]|error|Error" | cut -c1-200
done
