#!/bin/bash
# every check's thorough command once, evidence redirected (results belong to this snapshot)
export VERIF_EVIDENCE_DIR=$PWD/thorough-evidence VERIF_SHRINK_S=60
for p in C01 C02 C03 C04 C05 C06 C07 C08 C09 C10 C14 C16 C17 C20 C21 C22 C23 C24 C26 C27 C30 C38 C39 C40 C41; do
  /usr/bin/time -f "%e s" ./vcheck $p thorough > thorough_$p.log 2>&1
  echo "exit $p $? $(grep -E '^\[vcheck\] C[0-9]+:' thorough_$p.log | cut -c1-160) $(tail -1 thorough_$p.log)"
  grep -E "^VIOLATION|HARNESS ERROR|wall cap|warning|note:" thorough_$p.log | cut -c1-300
done
