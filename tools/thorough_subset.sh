#!/bin/bash
export VERIF_EVIDENCE_DIR=$PWD/thorough-evidence VERIF_SHRINK_S=60
for p in "$@"; do
  ./vcheck $p thorough > thorough_$p.log 2>&1
  echo "exit $p $? $(grep -E '^\[vcheck\] C[0-9]+:' thorough_$p.log | cut -c1-160)"
  grep -E "^VIOLATION|HARNESS ERROR|wall cap|note:" thorough_$p.log | cut -c1-300
done
