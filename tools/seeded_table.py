#!/venv/bin/python
"""Print (markdown) which registered check detects which seeded change, from /verif/seeded/*/meta.json."""
import json
import os

root = '/verif/seeded'
rows = []
for name in sorted(os.listdir(root)):
    mp = os.path.join(root, name, 'meta.json')
    if not os.path.exists(mp):
        continue
    m = json.load(open(mp))
    notes = os.path.join(root, name, 'notes.md')
    title = ''
    if os.path.exists(notes):
        for line in open(notes):
            if line.startswith('#'):
                title = line.lstrip('# ').strip()
                break
    db = m.get('detected_by') or {}
    det = []
    for cid, v in sorted(db.items()):
        if isinstance(v, dict):
            det.append(f"{cid} {v.get('tier', '?')}: " + ('detected' if v.get('exit') == 1 else
                                                           ('harness error' if v.get('exit') == 2 else 'missed')))
    applies = (m.get('confirmed') or {}).get('patch_applies')
    status = m.get('status') or ('' if applies is not False else 'patch no longer applies to the repaired tree')
    rows.append((name, ', '.join(m.get('files', []))[:70], title[:110], '; '.join(det) or 'not run', status))
print('| change | files | what | checks | note |')
print('|---|---|---|---|---|')
for r in rows:
    print('| ' + ' | '.join(x.replace('|', '/') for x in r) + ' |')
n = len(rows)
d = sum(1 for r in rows if 'detected' in r[3])
print(f'\n{d} of {n} filed changes are detected by at least one registered check at the tier shown.')
