#!/venv/bin/python
"""Maintenance: re-record the replay files of the status=known findings with the CURRENT harness.

The choice lists of a replay are tied to the generator that drew them; after the harness changes a listed finding may no
longer reproduce from its stored replay (the check then prints a note instead of the KNOWN-FINDING line).  This tool runs
each affected check with VERIF_IGNORE_KNOWN=1 (listed signatures are then reported like any violation and get a fresh,
minimised replay), copies the replay of every listed signature over the file named in known_findings.json and verifies
it.  It never edits known_findings.json.
"""
import json
import os
import shutil
import subprocess
import sys

V = '/verif'
doc = json.load(open(os.path.join(V, 'known_findings.json')))
by_prop = {}
for e in doc['findings']:
    if e.get('status') == 'known' and e.get('replay'):
        by_prop.setdefault(e['property'], []).append(e)
rc = 0
for prop, entries in sorted(by_prop.items()):
    stale = []
    for e in entries:
        p = subprocess.run(['./vcheck', 'replay', e['replay'], '--quiet'], cwd=V, capture_output=True, text=True)
        if p.returncode != 1:
            stale.append(e)
    if not stale and '--all' not in sys.argv:
        print(prop, 'all listed replays reproduce')
        continue
    env = dict(os.environ, VERIF_IGNORE_KNOWN='1', VERIF_EVIDENCE_DIR='/tmp/refresh-ev', VERIF_SHRINK_S='40')
    for seed in ('0', '1', '2', '3'):
        env['VERIF_SEED'] = seed
        p = subprocess.run(['./vcheck', prop, 'quick'], cwd=V, env=env, capture_output=True, text=True)
        found = {}
        for line in p.stdout.splitlines():
            if line.startswith('VIOLATION') and 'replay=' in line:
                path = line.split('replay=')[1].strip()
                found[json.load(open(path))['signature']] = path
        for e in list(stale):
            if e['signature'] in found:
                shutil.copy(found[e['signature']], os.path.join(V, e['replay']))
                q = subprocess.run(['./vcheck', 'replay', e['replay'], '--quiet'], cwd=V, capture_output=True, text=True)
                print(prop, e['signature'], 'refreshed from', os.path.basename(found[e['signature']]),
                      'reproduces' if q.returncode == 1 else 'DOES NOT REPRODUCE')
                stale.remove(e)
        if not stale:
            break
    for e in stale:
        print(prop, e['signature'], 'NOT FOUND in 4 quick sweeps')
        rc = 1
sys.exit(rc)
