#!/venv/bin/python
"""Regenerate MANIFEST.json from checks.py (single source of truth)."""
import json
import os
import sys

VERIF = os.path.dirname(os.path.dirname(os.path.abspath(__file__)))
sys.path.insert(0, VERIF)
import checks  # noqa: E402

man = {
    'version': 1,
    'setup_cmd': './setup.sh',
    'hooks': {
        'guard': 'HAIL_VERIF_SIM',
        'enable': 'no source hook is needed: checks import /repo\'s working tree at run time and own every seam '
                  '(event loop, clock, modules for absent third-party packages) from outside',
        'baseline_off_cmd': 'cd /repo && /venv/bin/python -m pytest -ra -q -p no:cacheprovider --timeout=900 '
                            '--continue-on-collection-errors',
        'source_commits': [],
        'add_only': True,
    },
    'engines': checks.ENGINES,
    'checks': [],
    'notes': checks.NOTES,
    'not_applicable': checks.NOT_APPLICABLE,
}
for pid in sorted(checks.CHECKS):
    c = checks.CHECKS[pid]
    man['checks'].append({
        'property_id': pid,
        'quick_cmd': f'./vcheck {pid} quick',
        'thorough_cmd': f'./vcheck {pid} thorough',
        'evidence_file': f'/verif/evidence/{pid}.json',
        'replay_cmd_template': './vcheck replay {path}',
        'engine': c['engine'],
        'level_claimed': {'category': c['level'], 'text': c['level_text'], 'design_ref': c['design_ref']},
        'level_note': c['level_note'],
        'technique': c['technique'],
    })
with open(os.path.join(VERIF, 'MANIFEST.json'), 'w') as f:
    json.dump(man, f, indent=1)
print('checks:', len(man['checks']), 'not_applicable:', len(man['not_applicable']))
